#!/bin/bash
# One-time set-up after a fresh restore (offline): contract libraries beside the repository's
# interpreter and generated code for the current working tree.  Every check repeats these steps
# on demand, so this script only front-loads the cost.
cd "$(dirname "$0")"
export PIP_NO_INDEX=1 PYTHONHASHSEED=0
mkdir -p .work evidence replay
/venv/bin/python -m vf.env
