"""
Event log for timed events (C06, C14).

* every ``TimerParam.callback`` of the loaded system is wrapped: records
  (model, timer name, dae.t, device indices whose is_time is True, returned action flag)
* ``Model.set`` and ``GroupBase.set`` are wrapped at class level (once per worker): while a log
  is active every call records (owner name, src, idx, attr, old value, new value, dae.t,
  inside which callback).  The wrappers only copy; they call the original unchanged.
* ``Fault.uf`` (an internal flag that is not written through ``set``) is snapshotted around the
  Fault callbacks.
"""
import numpy as np

_active = None          # the EventLog currently recording (one system at a time per worker)
_patched = False


def _patch_classes():
    global _patched
    if _patched:
        return
    from andes.core.model.model import Model
    from andes.models.group import GroupBase

    def wrap(cls, owner_name):
        orig = cls.set

        def set(self, src, idx, attr, value):
            log = _active
            if log is None or log.system is not getattr(self, "system", None):
                return orig(self, src, idx, attr, value)
            try:
                old = np.array(self.get(src=src, idx=idx, attr=attr), dtype=float).copy()
            except Exception:
                old = None
            r = orig(self, src, idx, attr, value)
            try:
                new = np.array(self.get(src=src, idx=idx, attr=attr), dtype=float).copy()
            except Exception:
                new = None
            if not log._nested:
                log._nested = True   # Bus.set -> Model.set / Group.set -> ...: log the outermost only
                try:
                    log.sets.append(dict(owner=owner_name(self), src=src, idx=idx, attr=attr,
                                         old=None if old is None else old.tolist(), new=None if new is None else new.tolist(),
                                         t=float(log.system.dae.t), cb=log._cb))
                finally:
                    log._nested = False
            return r
        cls.set = set

    wrap(Model, lambda s: s.class_name)
    wrap(GroupBase, lambda s: s.class_name)
    # Bus overrides set and calls super().set(): covered by the Model wrapper.
    _patched = True


class EventLog:
    def __init__(self, ss):
        global _active
        _patch_classes()
        self.system = ss
        self.firings = []      # callback invocations with at least one True in is_time
        self.calls = 0         # all callback invocations
        self.sets = []
        self.fault_flags = []
        self._cb = None
        self._nested = False
        _active = self
        for mname, mdl in ss.models.items():
            if mdl.n == 0:
                continue
            for tname, timer in mdl.timer_params.items():
                if timer.callback is not None:
                    timer.callback = self._wrap_cb(mdl, tname, timer.callback)
        # time-series updates are applied by TimeSeries.apply_exact (called from System.switch_action and at init)
        ts = getattr(ss, "TimeSeries", None)
        if ts is not None and ts.n > 0:
            orig = ts.apply_exact
            log = self

            def apply_exact(t, _orig=orig):
                prev = log._cb
                log._cb = ("TimeSeries", "apply_exact")
                try:
                    return _orig(t)
                finally:
                    log._cb = prev
            ts.apply_exact = apply_exact

    def _wrap_cb(self, mdl, tname, cb):
        log = self

        def wrapped(is_time):
            log.calls += 1
            it = np.array(is_time).astype(bool).copy()
            t = float(log.system.dae.t)
            hit = [mdl.idx.v[i] for i in np.where(it)[0]]
            uf0 = np.array(mdl.uf.v).copy() if mdl.class_name == "Fault" else None
            prev = log._cb
            log._cb = (mdl.class_name, tname)
            try:
                ret = cb(is_time)
            finally:
                log._cb = prev
            if hit:
                log.firings.append(dict(model=mdl.class_name, timer=tname, t=t, idx=hit, action=bool(ret)))
            if uf0 is not None:
                uf1 = np.array(mdl.uf.v)
                for i in np.where(uf0 != uf1)[0]:
                    log.fault_flags.append(dict(idx=mdl.idx.v[int(i)], old=float(uf0[i]), new=float(uf1[i]), t=t, timer=tname))
            return ret
        return wrapped

    def close(self):
        global _active
        if _active is self:
            _active = None
