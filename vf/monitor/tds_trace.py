"""
Passive per-step recorder for live time-domain simulations.

``StepTrace(ss)`` wraps the *instance attribute* ``ss.TDS.itm_step`` (the public stepping entry
point that ``TDS.run`` calls for every attempted step) and copies what the solver holds before
and after each call.  Nothing is written back, so the simulation is not perturbed (C04 verifies
that by comparing a monitored with a bare run).
"""
import numpy as np


def _rowsum(spm, n):
    """Row sums of |entries| of a kvxopt spmatrix."""
    if n == 0:
        return np.zeros(0)
    I = np.array(spm.I).ravel().astype(int)
    V = np.abs(np.array(spm.V).ravel())
    return np.bincount(I, weights=V, minlength=n)[:n]


class StepTrace:
    def __init__(self, ss, keep_vectors=True, rowsums=True):
        self.ss = ss
        self.tds = ss.TDS
        self.steps = []          # one dict per call of itm_step
        self.keep = keep_vectors
        self.rowsums = rowsums
        self._orig = ss.TDS.itm_step
        ss.TDS.itm_step = self._wrapped
        self.calls = 0

    def remove(self):
        try:
            del self.ss.TDS.itm_step
        except AttributeError:
            pass

    def pegged(self):
        out = []
        for item in self.ss.antiwindups:
            for key, val, eqval in item.x_set:
                out.extend(np.atleast_1d(key).astype(int).tolist())
        return out

    def _wrapped(self):
        dae = self.ss.dae
        tds = self.tds
        self.calls += 1
        pre = dict(t=float(dae.t), h=float(tds.h), x=dae.x.copy(), y=dae.y.copy(), f=dae.f.copy())
        ok = self._orig()
        rec = dict(t=pre["t"], h=pre["h"], ok=bool(ok), niter=int(tds.niter), chatter=bool(tds.chatter),
                   x0=pre["x"], y0=pre["y"], f0=pre["f"], x=dae.x.copy(), y=dae.y.copy(), f=dae.f.copy(), g=dae.g.copy(),
                   pegged=self.pegged(), Tf=dae.Tf.copy())
        if self.rowsums and ok:
            n, m = dae.n, dae.m
            rec["rs_f"] = _rowsum(dae.fx, n) + _rowsum(dae.fy, n)
            rec["rs_g"] = _rowsum(dae.gx, m) + _rowsum(dae.gy, m)
        self.steps.append(rec)
        return ok

    # convenience -------------------------------------------------------------------------
    def accepted(self):
        return [s for s in self.steps if s["ok"]]

    def rejected(self):
        return [s for s in self.steps if not s["ok"]]


def check_step_rule(res, trace, method, tol, K=4.0, tag=""):
    """C04 assertions on a recorded trace.  ``res`` is a vf.util.Result.

    Bound for differential row i of an accepted step (derivation in DESIGN.md, C04):
        K*h*w*tol*rowsum_i(|fx|+|fy|)                      last Newton increment (|inc| <= tol)
      + (Tf_i + h*w*rowsum_i) * tol_zero  if reset_tiny   increments below tol/1e6 are dropped by design
    """
    w = 0.5 if method == "trapezoid" else 1.0
    cfg = trace.tds.config
    tol_zero = float(trace.tds.tol_zero) if int(getattr(cfg, "reset_tiny", 0)) else 0.0
    worst_f = 0.0
    worst_g = 0.0
    for k, s in enumerate(trace.steps):
        if not s["ok"]:
            res.count("rejected_steps")
            same = (np.array_equal(s["x"], s["x0"]) and np.array_equal(s["y"], s["y0"]) and np.array_equal(s["f"], s["f0"]))
            if not same:
                res.violate("rejected_step_changed_state", "%s: rejected step at t=%.6f (h=%.3g) left x/y/f changed "
                            "(max |dx|=%.3e)" % (tag, s["t"], s["h"], float(np.max(np.abs(s["x"] - s["x0"]))) if len(s["x"]) else 0.0),
                            t=s["t"])
            continue
        res.count("accepted_steps")
        if s["chatter"]:
            res.count("chatter_steps_excluded")
            continue
        n = len(s["x"])
        h = s["h"]
        if n:
            f0 = s["f0"] if method == "trapezoid" else np.zeros(n)
            r = s["Tf"] * (s["x"] - s["x0"]) - h * w * (s["f"] + f0)
            bound = K * h * w * tol * s["rs_f"] + (np.abs(s["Tf"]) + h * w * s["rs_f"]) * tol_zero + 1e-12
            mask = np.ones(n, dtype=bool)
            if s["pegged"]:
                mask[np.array(s["pegged"], dtype=int)] = False
                res.count("pegged_state_steps", len(s["pegged"]))
            ratio = np.where(mask, np.abs(r) / bound, 0.0)
            if ratio.size and ratio.max() > worst_f:
                worst_f = float(ratio.max())
            if ratio.size and ratio.max() > 1.0:
                i = int(np.argmax(ratio))
                name = trace.ss.dae.x_name[i] if i < len(trace.ss.dae.x_name) else str(i)
                res.violate("step_rule_differential", "%s: step ending t=%.6f h=%.4g: |T dx - h w (f1+f0)| = %.3e > bound %.3e "
                            "on state %s (%s)" % (tag, s["t"], h, abs(r[i]), bound[i], name, method), t=s["t"], state=name)
                break
        if len(s["g"]):
            bg = K * tol * s["rs_g"] + 1e-12
            rg = np.abs(s["g"]) / bg
            if rg.max() > worst_g:
                worst_g = float(rg.max())
            if rg.max() > 1.0:
                i = int(np.argmax(rg))
                name = trace.ss.dae.y_name[i] if i < len(trace.ss.dae.y_name) else str(i)
                res.violate("step_rule_algebraic", "%s: step ending t=%.6f: |g| = %.3e > bound %.3e on %s" % (
                    tag, s["t"], abs(s["g"][i]), bg[i], name), t=s["t"], var=name)
                break
    res.maxobs("max_ratio_differential", worst_f)
    res.maxobs("max_ratio_algebraic", worst_g)
