"""
Random static networks generated *from a solution*, so that feasibility is known.

``gen_network(rng, ...)`` returns a plain dict ``net`` (lists of device dicts in ANDES
parameter names plus the design solution).  ``present(net, variant)`` produces a presentation of
the same physical network (shuffled order, string indices, other device bases) and
``build_system(net)`` feeds it to the real ``System.add``.
"""
import copy

import numpy as np

from vf.oracle import powerflow as opf


def _tree_edges(rng, n):
    edges = []
    for i in range(1, n):
        edges.append((int(rng.integers(0, i)), i))
    return edges


def gen_topology(rng, n, extra=None, parallel=None):
    edges = _tree_edges(rng, n)
    extra = int(rng.integers(0, max(1, n // 2) + 1)) if extra is None else extra
    for _ in range(extra):
        a, b = rng.choice(n, size=2, replace=False)
        edges.append((int(a), int(b)))
    parallel = int(rng.integers(0, 3)) if parallel is None else parallel
    for _ in range(parallel):
        e = edges[int(rng.integers(0, len(edges)))]
        edges.append((e[0], e[1]) if rng.random() < 0.5 else (e[1], e[0]))
    return edges


def gen_network(rng, nbus=None, hard=True, asym=None):
    n = int(rng.integers(3, 31)) if nbus is None else nbus
    if asym is None:
        asym = bool(rng.random() < 0.6)      # per-end branch shunts (not expressible in MATPOWER)
    Sb = float(rng.choice([100.0, 50.0, 1000.0])) if hard else 100.0
    kvs = [110.0, 230.0, 20.0, 345.0]
    bus_kv = [float(rng.choice(kvs)) for _ in range(n)]
    edges = gen_topology(rng, n)
    buses = [dict(idx=i + 1, name="B%d" % (i + 1), Vn=bus_kv[i]) for i in range(n)]
    lines = []
    # design voltages: walk the spanning tree (first n-1 edges form it)
    vm = np.ones(n)
    va = np.zeros(n)
    vm[0] = rng.uniform(0.98, 1.05)
    va[0] = rng.uniform(-0.1, 0.1)
    phis = {}
    for k, (f, t) in enumerate(edges):
        is_tf = bus_kv[f] != bus_kv[t] or rng.random() < 0.2
        Sn = float(rng.choice([100.0, 40.0, 250.0])) if hard else 100.0
        off = float(rng.choice([1.0, 1.0, 1.05, 0.95])) if hard else 1.0
        Vn1 = bus_kv[f] * off
        kz = (Vn1 ** 2 / Sn) / (bus_kv[f] ** 2 / Sb)       # device-base -> system-base impedance ratio
        # electrical size is drawn on the system base (so the network is "normal"), data is then
        # expressed on the device's own base
        x = float(rng.uniform(0.02, 0.4)) / kz
        r = float(rng.uniform(0.0, 0.3) * x)
        ln = dict(idx="L%d" % (k + 1), bus1=f + 1, bus2=t + 1, Sn=Sn, Vn1=Vn1, Vn2=bus_kv[t] * off,
                  r=r, x=x, b=0.0, g=0.0, b1=0.0, g1=0.0, b2=0.0, g2=0.0, tap=1.0, phi=0.0, u=1, trans=0)
        if not is_tf:
            ln["b"] = float(rng.uniform(0.0, 0.3)) * kz
            if hard and asym and rng.random() < 0.5:
                ln["b1"] = float(rng.uniform(0.0, 0.3)) * kz
                ln["b2"] = float(rng.uniform(0.0, 0.3)) * kz
                ln["g1"] = float(rng.uniform(0.0, 0.05)) * kz
                ln["g2"] = float(rng.uniform(0.0, 0.05)) * kz
                ln["g"] = float(rng.uniform(0.0, 0.02)) * kz
        else:
            ln["trans"] = 1
            ln["tap"] = float(rng.uniform(0.9, 1.1))
            if hard and rng.random() < 0.4:
                ln["phi"] = float(rng.uniform(-0.2, 0.2))
            if hard and asym and rng.random() < 0.3:
                ln["b1"] = float(-rng.uniform(0.0, 0.05)) * kz   # magnetising branch on the from side only
                ln["g1"] = float(rng.uniform(0.0, 0.01)) * kz
        if hard and k >= n - 1 and rng.random() < 0.15:
            ln["u"] = 0
        if k >= n - 1 and ln["trans"] and ln["phi"] != 0.0 and int(ln["tap"] * 1e4) % 3 == 0:
            # a pure phase shifter (nominal ratio): decided from numbers already drawn, so the random stream - and with it
            # every other generated network - stays what it was.  MATPOWER writes such a branch with ratio 0.
            ln["tap"] = 1.0
        lines.append(ln)
        if k < n - 1:  # tree edge: define the design voltage of the new node t from a target flow
            flow = rng.uniform(-0.7, 0.7)          # pu on system base, normal loading
            delta = float(np.clip(flow * ln["x"] * kz, -0.15, 0.15))
            va[t] = va[f] - ln["phi"] + delta
            dv = float(rng.uniform(-1, 1) * min(0.02, 0.5 * ln["x"] * kz))
            if ln["trans"]:
                # choose the far-end voltage, then the tap that makes the reactive flow normal
                vm[t] = float(rng.uniform(0.96, 1.04))
                ln["tap"] = float(np.clip(vm[f] / (vm[t] - dv), 0.85, 1.15))
            else:
                vm[t] = float(np.clip(vm[f] + dv, 0.94, 1.06))
        else:          # chord: both end voltages are already fixed; keep its flow in the normal range
            dth = abs(va[f] - va[t] - ln["phi"]) + abs(vm[f] / ln["tap"] - vm[t])
            xmin = dth / 0.7 / kz
            if ln["x"] < xmin:
                ln["r"] = float(ln["r"] * xmin / ln["x"])
                ln["x"] = float(xmin)
    slack_bus = int(rng.integers(0, n))
    va += rng.uniform(-0.1, 0.1) - va[slack_bus]       # reference angle close to the flat start
    shunts = []
    for i in range(n):
        if rng.random() < 0.2:
            sSn = float(rng.choice([100.0, 30.0])) if hard else 100.0
            sVn = bus_kv[i] * (float(rng.choice([1.0, 1.1])) if hard else 1.0)
            sk = (sVn ** 2 / sSn) / (bus_kv[i] ** 2 / Sb)
            shunts.append(dict(idx="SH%d" % (len(shunts) + 1), bus=i + 1, Sn=sSn, Vn=sVn,
                               g=float(rng.uniform(0, 0.05)) * sk, b=float(rng.uniform(-0.3, 0.5)) * sk,
                               u=0 if (hard and rng.random() < 0.2) else 1))
    net = dict(mva=Sb, bus=buses, line=lines, shunt=shunts, pq=[], pv=[], slack=[])
    # injections from the design solution with the oracle's own admittance model
    d = to_oracle(net)
    Y = opf.ybus(d)
    V = vm * np.exp(1j * va)
    Sinj = V * np.conj(Y @ V)     # power flowing from the bus into the network
    # roles
    npv = int(rng.integers(0, max(1, n // 3) + 1))
    pv_buses = [int(b) for b in rng.choice([i for i in range(n) if i != slack_bus], size=min(npv, n - 1), replace=False)]
    pqc = 0
    for i in range(n):
        # generation - load = Sinj
        if i == slack_bus:
            pl, ql = float(rng.uniform(0, 0.5)), float(rng.uniform(0, 0.2))
            net["slack"].append(dict(idx="G%d" % (i + 1), bus=i + 1, Sn=100.0, Vn=bus_kv[i], v0=float(vm[i]), a0=float(va[i]),
                                     p0=float(rng.uniform(0, 1)), q0=float(rng.uniform(0, 0.3)), u=1))
        elif i in pv_buses:
            pl, ql = float(rng.uniform(0, 1.0)), float(rng.uniform(0, 0.4))
            pg = float(Sinj[i].real + pl)
            net["pv"].append(dict(idx="G%d" % (i + 1), bus=i + 1, Sn=100.0, Vn=bus_kv[i], v0=float(vm[i]), p0=pg,
                                  q0=float(rng.uniform(-0.2, 0.2)), u=1))
            if hard and rng.random() < 0.2:  # an offline generator on the same bus must be ignored
                net["pv"].append(dict(idx="GX%d" % (i + 1), bus=i + 1, Sn=100.0, Vn=bus_kv[i], v0=1.1, p0=0.7, q0=0.1, u=0))
        else:
            pl, ql = float(-Sinj[i].real), float(-Sinj[i].imag)
        # split the load into several devices
        parts = int(rng.integers(1, 4)) if hard else 1
        w = rng.dirichlet(np.ones(parts))
        for j in range(parts):
            pqc += 1
            net["pq"].append(dict(idx="PQ%d" % pqc, bus=i + 1, Vn=bus_kv[i], p0=float(pl * w[j]), q0=float(ql * w[j]), u=1))
        if hard and rng.random() < 0.15:
            pqc += 1
            net["pq"].append(dict(idx="PQ%d" % pqc, bus=i + 1, Vn=bus_kv[i], p0=0.9, q0=0.4, u=0))
    net["sol"] = dict(vm=vm.tolist(), va=va.tolist())
    return net


def to_oracle(net):
    """Plain description -> oracle data (same structure as powerflow.extract)."""
    pos = {b["idx"]: i for i, b in enumerate(net["bus"])}
    n = len(net["bus"])

    def arr(lst, k, default=0.0):
        return np.array([float(e.get(k, default)) for e in lst], dtype=float)

    d = dict(Sb=float(net["mva"]), nb=n, bus_idx=[b["idx"] for b in net["bus"]], bus_Vn=arr(net["bus"], "Vn"),
             bus_u=np.ones(n), pq2z=1)
    L = net["line"]
    d["line"] = dict(n=len(L), f=np.array([pos[e["bus1"]] for e in L], dtype=int),
                     t=np.array([pos[e["bus2"]] for e in L], dtype=int), idx=[e["idx"] for e in L], u=arr(L, "u", 1),
                     **{k: arr(L, k, 1.0 if k == "tap" else 0.0) for k in
                        ("Sn", "Vn1", "Vn2", "r", "x", "b", "g", "b1", "g1", "b2", "g2", "tap", "phi")})
    for name in ("shunt", "pq", "pv", "slack"):
        lst = net[name]
        e = dict(n=len(lst), bus=np.array([pos[x["bus"]] for x in lst], dtype=int), idx=[x["idx"] for x in lst],
                 u=arr(lst, "u", 1))
        if name == "shunt":
            for k in ("Sn", "Vn", "g", "b"):
                e[k] = arr(lst, k)
        elif name == "pq":
            e["p0"], e["q0"] = arr(lst, "p0"), arr(lst, "q0")
            e["vmax"], e["vmin"] = arr(lst, "vmax", 1.2), arr(lst, "vmin", 0.8)
        else:
            for k, df in (("p0", 0), ("q0", 0), ("v0", 1), ("qmax", 999), ("qmin", -999), ("pmax", 999), ("pmin", -1)):
                e[k] = arr(lst, k, df)
            if name == "slack":
                e["a0"] = arr(lst, "a0")
        d[name] = e
    return d


# ----------------------------------------------------------------------------------------------
# presentations of one physical network

def present(net, rng, shuffle=False, idx_style="num", rebase=False):
    """Return an equivalent description: device order, index type, device bases changed."""
    net = copy.deepcopy(net)
    if idx_style != "num":
        def bmap(i):
            if idx_style == "str":
                return "B%s" % i
            if idx_style == "strnum":       # numeric-looking strings are still strings
                return "%d" % (1000 + int(i))
            return i
        for b in net["bus"]:
            b["idx"] = bmap(b["idx"])
        for ln in net["line"]:
            ln["bus1"], ln["bus2"] = bmap(ln["bus1"]), bmap(ln["bus2"])
        for k in ("shunt", "pq", "pv", "slack"):
            for e in net[k]:
                e["bus"] = bmap(e["bus"])
    if idx_style == "num":
        # device indices numeric as well
        for k in ("line", "shunt", "pq", "pv", "slack"):
            for j, e in enumerate(net[k]):
                e["idx"] = j + 1
    if rebase:
        Vb = {b["idx"]: b["Vn"] for b in net["bus"]}
        for ln in net["line"]:
            Sn2 = float(rng.choice([100.0, 33.0, 500.0]))
            Vn2 = Vb[ln["bus1"]] * float(rng.choice([1.0, 1.2, 0.9]))
            k_old = ln["Vn1"] ** 2 / ln["Sn"]
            k_new = Vn2 ** 2 / Sn2
            s = k_old / k_new                 # z_new = z_old * s keeps the ohmic value
            for key in ("r", "x"):
                ln[key] = ln[key] * s
            for key in ("b", "g", "b1", "g1", "b2", "g2"):
                ln[key] = ln[key] / s
            ratio = Vn2 / ln["Vn1"]
            ln["Sn"], ln["Vn1"], ln["Vn2"] = Sn2, Vn2, ln["Vn2"] * ratio
        for sh in net["shunt"]:
            Sn2 = float(rng.choice([100.0, 10.0, 300.0]))
            Vn2 = Vb[sh["bus"]] * float(rng.choice([1.0, 1.1]))
            s = (sh["Vn"] ** 2 / sh["Sn"]) / (Vn2 ** 2 / Sn2)
            sh["g"], sh["b"] = sh["g"] / s, sh["b"] / s
            sh["Sn"], sh["Vn"] = Sn2, Vn2
    if shuffle:
        perm = rng.permutation(len(net["bus"]))
        net["bus"] = [net["bus"][i] for i in perm]
        sol = net.get("sol")
        if sol:
            net["sol"] = dict(vm=[sol["vm"][i] for i in perm], va=[sol["va"][i] for i in perm])
        for k in ("line", "shunt", "pq", "pv", "slack"):
            p = rng.permutation(len(net[k]))
            net[k] = [net[k][i] for i in p]
    return net


MODEL_OF = dict(bus="Bus", line="Line", shunt="Shunt", pq="PQ", pv="PV", slack="Slack")


def build_system(net, ss=None, setup=True, interleave=False, rng=None, **kw):
    """Feed the description to the real ANDES ``System.add``."""
    from vf import au
    if ss is None:
        rc = kw.pop("config_path", None)
        ss = au.new_system(config_path=rc, config={"mva": net["mva"]} if rc is None else None, **kw)
        if rc is not None:
            ss.config.mva = net["mva"]
    items = []
    for key in ("bus", "line", "shunt", "pq", "pv", "slack"):
        for e in net[key]:
            items.append((MODEL_OF[key], e))
    if interleave and rng is not None:
        # any order in which buses come before nothing in particular: ANDES resolves links at setup
        p = rng.permutation(len(items))
        items = [items[i] for i in p]
    for mdl, e in items:
        ss.add(mdl, dict(e))
    if setup:
        ss.setup()
    return ss


def sol_by_bus(net):
    return {b["idx"]: (vm, va) for b, vm, va in zip(net["bus"], net["sol"]["vm"], net["sol"]["va"])}
