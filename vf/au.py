"""Helpers used inside workers to drive the real ANDES code hermetically."""
import glob
import logging
import os
import shutil

import numpy as np

import andes
from vf import env

_configured = False


def quiet(level=50):
    global _configured
    andes.config_logger(stream_level=level)
    logging.getLogger("andes").setLevel(level)
    _configured = True


def cases_root():
    return os.path.join(env.REPO, "andes", "cases")


def case(rel):
    return os.path.join(cases_root(), rel)


def stock_cases(exts=(".xlsx", ".json", ".raw", ".m")):
    out = []
    for p in sorted(glob.glob(os.path.join(cases_root(), "**", "*"), recursive=True)):
        if os.path.isfile(p) and p.endswith(tuple(exts)):
            b = os.path.basename(p)
            if b in ("pqts.xlsx", "plbvf.xlsx"):  # time-series data files, not cases
                continue
            out.append(os.path.relpath(p, cases_root()))
    return out


def dyr_for(rel):
    """Return the dyr companion of a raw file if one ships."""
    table = {"kundur/kundur.raw": "kundur/kundur_full.dyr", "ieee14/ieee14.raw": "ieee14/ieee14.dyr",
             "ieee14/ieee14_ieeevc.raw": "ieee14/ieee14_ieeevc.dyr", "npcc/npcc.raw": "npcc/npcc_full.dyr",
             "wecc/wecc.raw": "wecc/wecc_full.dyr", "nordic44/N44_BC.raw": "nordic44/N44_BC.dyr"}
    return table.get(rel)


def load(path, setup=True, config_path=None, **kw):
    """andes.load with hermetic defaults (no rc file unless one is given, no output files)."""
    if not _configured:
        quiet()
    kw.setdefault("no_output", True)
    # the hermetic HOME holds code generated from exactly this working tree (vf.env); never let a worker
    # regenerate into the shared directory (ANDES' checksum also depends on the ORDER of config keys, so
    # an rc file with model sections would otherwise trigger regeneration)
    kw.setdefault("autogen_stale", False)
    if config_path is None:
        kw.setdefault("default_config", True)
    else:
        kw["config_path"] = config_path
    if not os.path.isabs(path):
        path = case(path)
    return andes.load(path, setup=setup, **kw)


def new_system(config_path=None, **kw):
    if not _configured:
        quiet()
    kw.setdefault("no_output", True)
    kw.setdefault("autogen_stale", False)
    if config_path is None:
        kw.setdefault("default_config", True)
    else:
        kw["config_path"] = config_path
    return andes.System(**kw)


def write_rc(path, sections):
    """Write a configparser rc file: {section: {field: value}}."""
    with open(path, "w") as f:
        for sec, kv in sections.items():
            f.write("[%s]\n" % sec)
            for k, v in kv.items():
                f.write("%s = %s\n" % (k, v))
            f.write("\n")
    return path


class Scratch:
    """Per-case scratch directory under /verif/.work/scratch, removed on exit."""

    def __init__(self, tag="c"):
        self.tag = tag

    def __enter__(self):
        base = os.path.join(env.WORK, "scratch")
        os.makedirs(base, exist_ok=True)
        import tempfile
        self.d = tempfile.mkdtemp(prefix="%s_%d_" % (self.tag, os.getpid()), dir=base)
        return self.d

    def __exit__(self, *a):
        shutil.rmtree(self.d, ignore_errors=True)


def dense(m):
    """kvxopt spmatrix/matrix -> numpy dense."""
    from kvxopt import matrix
    return np.array(matrix(m))


class UnionFind:
    def __init__(self, n):
        self.p = list(range(n))

    def find(self, a):
        while self.p[a] != a:
            self.p[a] = self.p[self.p[a]]
            a = self.p[a]
        return a

    def union(self, a, b):
        ra, rb = self.find(a), self.find(b)
        if ra != rb:
            self.p[rb] = ra
