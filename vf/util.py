"""Small helpers shared by driver, workers and checks (no andes import)."""
import hashlib
import json
import math

import numpy as np


def jsonable(o):
    """Convert numpy / complex / sets to plain JSON types (recursively)."""
    if isinstance(o, dict):
        return {str(k): jsonable(v) for k, v in o.items()}
    if isinstance(o, (list, tuple, set, frozenset)):
        return [jsonable(v) for v in o]
    if isinstance(o, np.ndarray):
        return jsonable(o.tolist())
    if isinstance(o, (np.bool_,)):
        return bool(o)
    if isinstance(o, np.integer):
        return int(o)
    if isinstance(o, np.floating):
        o = float(o)
    if isinstance(o, float):
        if math.isnan(o):
            return "nan"
        if math.isinf(o):
            return "inf" if o > 0 else "-inf"
        return o
    if isinstance(o, (complex, np.complexfloating)):
        return {"re": jsonable(float(o.real)), "im": jsonable(float(o.imag))}
    if isinstance(o, (str, int, bool)) or o is None:
        return o
    return repr(o)


def dumps(o, **kw):
    return json.dumps(jsonable(o), **kw)


def short_hash(o):
    return hashlib.sha256(dumps(o, sort_keys=True).encode()).hexdigest()[:12]


def rng_for(seed, prop, *idx):
    """Reproducible generator for (seed, property, case index...)."""
    pid = int(str(prop).lstrip("C") or 0)
    return np.random.default_rng([int(seed), pid] + [int(i) for i in idx])


class Result:
    """Accumulates the outcome of one case inside a worker."""

    def __init__(self, spec):
        self.spec = spec
        self.violations = []
        self.obs = {}
        self.inconclusive = None
        self.nontrivial = False
        self.sig = None
        self.sample = None
        self.notes = []

    def count(self, name, n=1):
        self.obs[name] = self.obs.get(name, 0) + n

    def maxobs(self, name, v):
        v = float(v)
        if not (v != v):
            self.obs[name] = max(self.obs.get(name, v), v)

    def violate(self, mech, msg, **data):
        """Record a violation.  ``mech`` is the check's own mechanism hint used by the
        known-finding classifier; it must be derived from a narrow predicate on the
        witness, never from random values."""
        if len(self.violations) < 20:
            self.violations.append(dict(mech=mech, msg=msg, data=jsonable(data)))
        self.count("violations_total")

    def inconc(self, reason):
        if self.inconclusive is None:
            self.inconclusive = reason

    def note(self, s):
        if len(self.notes) < 10:
            self.notes.append(s)

    def out(self):
        if self.violations:
            verdict = "violated"
        elif self.inconclusive:
            verdict = "inconclusive"
        else:
            verdict = "held"
        return dict(id=self.spec.get("id"), verdict=verdict, violations=self.violations, obs=self.obs,
                    reason=self.inconclusive, nontrivial=bool(self.nontrivial), sig=self.sig,
                    sample=jsonable(self.sample), notes=self.notes)
