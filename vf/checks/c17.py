"""
C17 - Failure is reported as failure.

Fault injection over inputs and routine sequences.  For every run the monitor computes an
*independent* validity verdict of whatever the routine left behind (C01 power balance, finite
values, t == tf, residual of the initial point) and checks the implications

    success flag True   =>  verdict valid, no NaN in dae.x / dae.y
    verdict invalid     =>  flag False  and  System.exit_code != 0  and  the command-line exit status
                            != 0  and  dependent routines return False without touching the state.

An uncaught exception is an acceptable report of failure; a hang is not.
"""
import os
import subprocess
import sys

import numpy as np

from vf.util import Result, rng_for

PROPERTY = "C17"
LEVEL = "fault_enumeration"
TIMEOUT = 600
RULE = ("fault classes x {ieee14, kundur, case118, pjm5bus, wecc_gencls}: load scaling x1.5..x30, slack removed, slack island cut off, zero / "
        "negative / NaN / inf branch reactance, NaN load, max_iter tiny, every Newton variant and linsolve; TDS with huge fixed step and "
        "shrinkt=0, long faults, unstable exciter gain, inconsistent dynamic data (failed initialisation), max_iter tiny; corrupt / "
        "truncated / missing xlsx, json, raw, m, dyr files; routine sequences (TDS / EIG without or after failed PF, after failed "
        "initialisation); command-line exit status for a subset. Non-trivial: the injected fault made the independent verdict "
        "invalid or the routine report failure; distinct = (case, fault, configuration).")
ASSUMPTIONS = ["PF verdict: C01 power balance within its bound at every non-isolated bus and finite values",
               "TDS verdict: run reached tf with finite states; initialisation verdict: max |f|, |g| of a fresh residual evaluation < tol",
               "an uncaught exception counts as reported failure"]
REQUIRED_OBS = {"fault_cases": 60, "failures_reported": 20, "successes_validated": 10, "cli_runs": 4, "dependent_routine_checks": 10}

PF_CASES = ["ieee14/ieee14_full.xlsx", "kundur/kundur_full.xlsx", "matpower/case118.m", "5bus/pjm5bus.xlsx", "wecc/wecc_gencls.xlsx"]
PF_FAULTS = ["load_x1.5", "load_x3", "load_x6", "load_x12", "load_x30", "no_slack", "slack_cut_off", "x_zero", "x_negative", "x_nan", "x_inf", "load_nan",
             "max_iter_1", "two_slacks_one_island", "all_lines_off", "v0_zero"]
TDS_FAULTS = ["huge_step_noshrink", "long_fault", "loss_of_synchronism", "unstable_gain", "failed_init_gamma", "max_iter_1", "nan_state", "tf_before_t0", "failed_init_stock"]
FILE_FAULTS = ["missing", "truncated_json", "garbled_json", "truncated_xlsx", "truncated_raw", "garbled_raw", "truncated_m", "empty", "garbled_dyr",
               "binary_as_raw"]


def cases(tier, seed):
    out = []
    k = 0
    for c in (PF_CASES[:3] if tier == "quick" else PF_CASES):
        for f in PF_FAULTS:
            methods = ("NR",) if tier == "quick" and k % 3 else ("NR", "dishonest", "NK")
            if tier == "quick" and "case118" in c:
                methods = tuple(m for m in methods if m != "NK")     # Newton-Krylov needs minutes to give up on 118 buses
            for method in methods:
                for ls in ((0,) if tier == "quick" else (0, 1)):
                    out.append(dict(id="pf:%s:%s:%s:ls%d" % (c, f, method, ls), kind="pf", case=c, fault=f, method=method, linsolve=ls))
            k += 1
    for c in ("kundur/kundur_full.xlsx", "ieee14/ieee14_fault.xlsx") + (() if tier == "quick" else ("wecc/wecc_gencls.xlsx", "ieee39/ieee39_full.xlsx")):
        for f in TDS_FAULTS:
            out.append(dict(id="tds:%s:%s" % (c, f), kind="tds", case=c, fault=f))
    for f in FILE_FAULTS:
        out.append(dict(id="file:" + f, kind="file", fault=f))
    for s in ("tds_without_pf", "eig_without_pf", "tds_after_failed_pf", "eig_after_failed_pf", "eig_after_failed_init", "pf_ok_then_tds_ok", "pf_ok_then_pf_fails:load", "pf_ok_then_pf_fails:x_nan",
              "pf_ok_then_pf_fails:max_iter", "pf_ok_then_pf_fails_then_tds"):
        out.append(dict(id="seq:" + s, kind="seq", seq=s))
    for c in ("cli_ok", "cli_pf_diverges", "cli_missing_file", "cli_tds_fails", "cli_corrupt", "cli_failed_init"):
        out.append(dict(id=c, kind="cli", which=c, timeout=900))
    return out


def worker_init():
    from vf import au
    au.quiet()


# ------------------------------------------------------------------------------------------------

def pf_verdict(ss):
    """Independent validity of the state PFlow left behind: (valid, reason)."""
    from vf.checks import c01
    if not (np.all(np.isfinite(ss.dae.y)) and np.all(np.isfinite(ss.dae.x))):
        return False, "non-finite values"
    sub = Result({})
    try:
        # Newton-Krylov stops on SciPy's own criterion (f_tol 6e-6), see C01
        tol = 6e-6 if str(ss.PFlow.config.method).lower() == "nk" else float(ss.PFlow.config.tol)
        info = c01.check_solution(sub, ss, "verdict", tol)
    except Exception as e:
        return None, "oracle failed: %r" % (e,)
    if info is None and not sub.violations:
        return None, "oracle not applicable"
    if sub.violations:
        return False, sub.violations[0]["msg"][:160]
    return True, "balanced"


def inject_pf(ss, fault, rng):
    L, PQ = ss.Line, ss.PQ
    if fault.startswith("load_x"):
        f = float(fault[6:])
        PQ.p0.v = PQ.p0.v * f
        PQ.q0.v = PQ.q0.v * f
    elif fault == "no_slack":
        for k in range(ss.Slack.n):
            ss.Slack.u.v[k] = 0
    elif fault == "slack_cut_off":
        sb = ss.Slack.bus.v[0]
        for k in range(L.n):
            if L.bus1.v[k] == sb or L.bus2.v[k] == sb:
                L.u.v[k] = 0
    elif fault == "x_zero":
        k = int(rng.integers(0, L.n))
        L.x.v[k] = 0.0
        L.r.v[k] = 0.0
    elif fault == "x_negative":
        L.x.v[int(rng.integers(0, L.n))] *= -1.0
    elif fault == "x_nan":
        L.x.v[int(rng.integers(0, L.n))] = float("nan")
    elif fault == "x_inf":
        L.x.v[int(rng.integers(0, L.n))] = float("inf")
    elif fault == "load_nan":
        PQ.p0.v[int(rng.integers(0, PQ.n))] = float("nan")
    elif fault == "max_iter_1":
        ss.PFlow.config.max_iter = 1
    elif fault == "two_slacks_one_island":
        pv = ss.PV
        if pv.n:
            ss.add("Slack", dict(bus=pv.bus.v[0], Vn=float(pv.Vn.v[0]), v0=1.02, a0=0.1, p0=0.5))
    elif fault == "all_lines_off":
        L.u.v = [0] * L.n if isinstance(L.u.v, list) else np.zeros(L.n)
    elif fault == "v0_zero":
        if ss.PV.n:
            ss.PV.v0.v[0] = 0.0


def as_arrays(ss):
    for m in (ss.Line, ss.PQ, ss.PV, ss.Slack):
        for p in ("x", "r", "p0", "q0", "u", "v0"):
            if p in m.params and isinstance(getattr(m, p).v, list):
                pass


def run_pf(spec, res):
    from vf import au
    rng = rng_for(spec.get("seed", 0), PROPERTY, 1, abs(hash(spec["id"])) % 100003)
    with au.Scratch("c17") as sd:
        rc = au.write_rc(os.path.join(sd, "a.rc"), {"PFlow": dict(method=spec["method"], linsolve=spec["linsolve"], report=0), "TDS": dict(no_tqdm=1)})
        ss = au.load(spec["case"], setup=False, config_path=rc)
        # lists before setup: write through plain python lists
        for m in (ss.Line, ss.PQ, ss.PV, ss.Slack):
            for p in m.params.values():
                if isinstance(p.v, list) and p.v and isinstance(p.v[0], (int, float)):
                    p.v = list(p.v)
        ss.Line.x.v = np.array(ss.Line.x.v, dtype=float)
        ss.Line.r.v = np.array(ss.Line.r.v, dtype=float)
        ss.Line.u.v = np.array(ss.Line.u.v, dtype=float)
        ss.PQ.p0.v = np.array(ss.PQ.p0.v, dtype=float)
        ss.PQ.q0.v = np.array(ss.PQ.q0.v, dtype=float)
        ss.Slack.u.v = np.array(ss.Slack.u.v, dtype=float)
        if ss.PV.n:
            ss.PV.v0.v = np.array(ss.PV.v0.v, dtype=float)
        inject_pf(ss, spec["fault"], rng)
        for m in (ss.Line, ss.PQ, ss.PV, ss.Slack):
            for p in m.params.values():
                if isinstance(p.v, np.ndarray):
                    p.v = p.v.tolist()
        res.count("fault_cases")
        tag = "%s fault=%s %s ls%d" % (spec["case"], spec["fault"], spec["method"], spec["linsolve"])
        try:
            ok_setup = ss.setup()
            flag = bool(ss.PFlow.run()) if ok_setup else False
            raised = None
        except Exception as e:
            flag, raised = False, e
        if raised is not None:
            res.count("failures_reported")
            res.count("failures_by_exception")
            res.sig = tag
            res.nontrivial = True
            res.sample = dict(case=spec["case"], fault=spec["fault"], method=spec["method"], outcome="raised %s" % type(raised).__name__)
            return
        valid, why = pf_verdict(ss) if flag else (None, "not evaluated")
        if flag:
            res.count("successes_reported")
            if valid is False:
                res.violate("success_on_invalid_result", "%s: PFlow.run() returned True but the independent verdict is invalid: %s" % (tag, why),
                            fault=spec["fault"], method=spec["method"])
            elif valid:
                res.count("successes_validated")
            if ss.exit_code != 0:
                res.violate("exit_code_on_success", "%s: run() True but exit_code=%r" % (tag, ss.exit_code))
        else:
            res.count("failures_reported")
            if ss.exit_code == 0:
                res.violate("failure_exit_code_zero", "%s: PFlow.run() returned False but System.exit_code is 0" % tag, fault=spec["fault"])
            if ss.PFlow.converged:
                res.violate("failure_flag_inconsistent", "%s: run() False but PFlow.converged is True" % tag)
            # dependent routines must refuse and leave the state alone
            x0, y0 = ss.dae.x.copy(), ss.dae.y.copy()
            for rname in ("TDS", "EIG"):
                try:
                    r = getattr(ss, rname).run()
                except Exception:
                    r = False
                res.count("dependent_routine_checks")
                if r:
                    res.violate("dependent_routine_ran", "%s: %s.run() returned True after the power flow failed" % (tag, rname), routine=rname)
            if ss.dae.x.shape == x0.shape and not (np.array_equal(ss.dae.x, x0, equal_nan=True) and np.array_equal(ss.dae.y, y0, equal_nan=True)):
                res.violate("dependent_routine_touched_state", "%s: a refused routine changed dae.x / dae.y" % tag)
        res.sig = tag
        res.nontrivial = (not flag) or valid is False or spec["fault"].startswith("load_x1")
        res.sample = dict(case=spec["case"], fault=spec["fault"], method=spec["method"], flag=flag, verdict=why, exit_code=int(ss.exit_code),
                          niter=int(ss.PFlow.niter))


def run_tds(spec, res):
    from vf import au
    rng = rng_for(spec.get("seed", 0), PROPERTY, 2, abs(hash(spec["id"])) % 100003)
    f = spec["fault"]
    tds = dict(no_tqdm=1, tf=2.0)
    case = spec["case"]
    if f == "huge_step_noshrink":
        tds.update(tstep=2.0, shrinkt=0, fixt=1)
    if f == "max_iter_1":
        tds.update(max_iter=1, shrinkt=0)
    if f == "failed_init_stock":
        case = ["ieee14/ieee14_zip.json", "kundur/kundur_islands.xlsx"][abs(hash(spec["case"])) % 2]
    with au.Scratch("c17") as sd:
        rc = au.write_rc(os.path.join(sd, "a.rc"), {"TDS": tds, "PFlow": dict(report=0)})
        ss = au.load(case, setup=False, config_path=rc)
        if f == "long_fault":
            ss.add("Fault", dict(bus=ss.Bus.idx.v[0], tf=0.2, tc=1.6, xf=1e-4))
        elif f == "loss_of_synchronism":
            # a long close-in fault in the middle of the network, then a few seconds for the machines to fall apart
            for k in range(ss.Fault.n):
                ss.Fault.u.v[k] = 0
            for k in range(ss.Toggle.n):
                ss.Toggle.u.v[k] = 0
            mid = ss.Bus.idx.v[min(ss.Bus.n - 1, 6)]
            ss.add("Fault", dict(bus=mid, tf=0.5, tc=float(rng.choice([1.1, 1.3])), xf=1e-4))
            ss.TDS.config.tf = 6.0
        elif f == "unstable_gain":
            for mname in ("EXDC2", "ESST3A", "EXST1", "IEEEX1"):
                m = getattr(ss, mname)
                if m.n and "KA" in m.params:
                    m.KA.v = [v * -50.0 for v in m.KA.v]
        elif f == "failed_init_gamma":
            for mname in ("GENROU", "GENCLS"):
                m = getattr(ss, mname)
                if m.n:
                    m.gammap.v = [0.6 for _ in m.gammap.v]      # power split factors no longer sum to one
        ss.setup()
        res.count("fault_cases")
        tag = "%s fault=%s" % (case, f)
        if not ss.PFlow.run():
            res.inconc("power flow failed before the injected TDS fault")
            return
        try:
            if f == "nan_state":
                ss.TDS.init()
                ss.dae.x[int(rng.integers(0, ss.dae.n))] = float("nan")
            if f == "tf_before_t0":
                ss.TDS.config.tf = -1.0
            flag = bool(ss.TDS.run())
            raised = None
        except Exception as e:
            flag, raised = False, e
        if raised is not None:
            res.count("failures_reported")
            res.count("failures_by_exception")
            res.sig = tag
            res.nontrivial = True
            res.sample = dict(case=case, fault=f, outcome="raised %s: %s" % (type(raised).__name__, str(raised)[:80]))
            return
        finite = bool(np.all(np.isfinite(ss.dae.x)) and np.all(np.isfinite(ss.dae.y)))
        reached = float(ss.dae.t) == float(ss.TDS.config.tf)
        # own evaluation of the configured stability criterion on the stored trajectory
        tripped_at = None
        if int(ss.TDS.config.criteria) and len(ss.SynGen.delta_addr) >= 2:
            X = np.array(ss.dae.ts.x)
            if X.ndim == 2 and X.shape[0]:
                dl = X[:, np.array(ss.SynGen.delta_addr, dtype=int)]
                spread = dl.max(axis=1) - dl.min(axis=1)
                res.maxobs("max_rotor_angle_spread_deg", float(np.degrees(np.nanmax(spread))))
                over = np.where(spread >= np.deg2rad(float(ss.TDS.config.ddelta_limit)))[0]
                if len(over):
                    tripped_at = float(np.array(ss.dae.ts.t)[over[0]])
                    res.count("runs_with_criterion_exceeded")
        init_ok = ss.TDS.test_ok is not False
        # independent residual of the initial point is not needed here: test_ok is cross-checked under C05
        valid = finite and reached and init_ok
        why = "finite=%s reached_tf=%s init_ok=%s" % (finite, reached, init_ok)
        if flag:
            res.count("successes_reported")
            if not finite:
                res.violate("success_with_nan", "%s: TDS.run() returned True with non-finite states" % tag, fault=f)
            elif not reached:
                res.violate("success_before_tf", "%s: TDS.run() returned True at t=%r, tf=%r" % (tag, float(ss.dae.t), float(ss.TDS.config.tf)), fault=f)
            elif tripped_at is not None and tripped_at < float(ss.dae.t):
                res.violate("success_with_criterion_tripped", "%s: the rotor-angle spread exceeded ddelta_limit=%g deg at t=%.4f (criteria=1), the "
                            "simulation went on to t=%.4f and TDS.run() returned True" % (tag, float(ss.TDS.config.ddelta_limit), tripped_at,
                                                                                          float(ss.dae.t)), fault=f)
            elif not init_ok:
                res.violate("tds_success_after_failed_init", "%s: initialisation reported failure (test_ok False, exit_code %d) and TDS.run() still "
                            "returned True" % (tag, ss.exit_code), fault=f, exit_code=int(ss.exit_code))
            else:
                res.count("successes_validated")
            if valid and ss.exit_code != 0:
                res.violate("exit_code_on_success", "%s: run() True but exit_code=%r" % (tag, ss.exit_code))
        else:
            res.count("failures_reported")
            if ss.exit_code == 0:
                res.violate("failure_exit_code_zero", "%s: TDS.run() returned False but System.exit_code is 0 (%s)" % (tag, why), fault=f)
        res.sig = tag
        res.nontrivial = (not flag) or (not valid)
        res.sample = dict(case=case, fault=f, flag=flag, verdict=why, exit_code=int(ss.exit_code), t=float(ss.dae.t), busted=bool(ss.TDS.busted))


def make_file(sd, fault):
    from vf import au
    src = {"json": au.case("ieee14/ieee14.json"), "xlsx": au.case("ieee14/ieee14_full.xlsx"), "raw": au.case("ieee14/ieee14.raw"),
           "m": au.case("matpower/case14.m"), "dyr": au.case("ieee14/ieee14.dyr")}
    if fault == "missing":
        return os.path.join(sd, "does_not_exist.xlsx"), None
    if fault == "empty":
        p = os.path.join(sd, "empty.json")
        open(p, "w").close()
        return p, None
    if fault == "binary_as_raw":
        p = os.path.join(sd, "bin.raw")
        open(p, "wb").write(bytes(range(256)) * 20)
        return p, None
    kind, ext = fault.split("_")
    data = open(src[ext], "rb").read()
    if ext == "dyr":
        p = os.path.join(sd, "g.dyr")
        open(p, "wb").write(data[: len(data) // 2].replace(b"GENROU", b"GEN@@OU"))
        return au.case("ieee14/ieee14.raw"), p
    p = os.path.join(sd, "x." + ext)
    if kind == "truncated":
        open(p, "wb").write(data[: len(data) // 2])
    else:
        b = bytearray(data)
        for k in range(len(b) // 3, len(b) // 3 + 200):
            b[k] = 35
        open(p, "wb").write(bytes(b))
    return p, None


def run_file(spec, res):
    import andes
    from vf import au
    res.count("fault_cases")
    with au.Scratch("c17") as sd:
        path, addfile = make_file(sd, spec["fault"])
        kw = dict(default_config=True, no_output=True)
        if addfile:
            kw["addfile"] = addfile
        try:
            ss = andes.load(path, **kw)
            raised = None
        except BaseException as e:
            ss, raised = None, e
        if raised is not None or ss is None:
            res.count("failures_reported")
            res.sample = dict(fault=spec["fault"], outcome="raised %s" % type(raised).__name__ if raised is not None else "load returned None")
        else:
            # loaded "successfully": then the system must be complete and consistent enough to pass the independent verdict
            ok = False
            why = ""
            try:
                ok = bool(ss.PFlow.run())
                valid, why = pf_verdict(ss) if ok else (None, "pf failed")
            except Exception as e:
                ok, valid, why = False, None, "raised %r" % (e,)
            from vf.oracle import rawread
            ref = au.load("ieee14/ieee14.raw")
            same_size = ss.Bus.n == ref.Bus.n and ss.Line.n == ref.Line.n
            res.sample = dict(fault=spec["fault"], outcome="loaded: buses=%d lines=%d pf=%s (%s)" % (ss.Bus.n, ss.Line.n, ok, why))
            if not same_size and ss.exit_code == 0 and ok:
                res.violate("truncated_raw_accepted" if spec["fault"] == "truncated_raw" else "corrupt_file_accepted", "corrupt input (%s) was loaded as a smaller system (%d buses, %d lines; the intact file has %d, %d) and "
                            "solved without any error indication" % (spec["fault"], ss.Bus.n, ss.Line.n, ref.Bus.n, ref.Line.n), fault=spec["fault"])
            elif addfile and ok:
                # garbled dyr: dynamic data lost silently?
                ref2 = au.load("ieee14/ieee14.raw", addfile=au.case("ieee14/ieee14.dyr"))
                if ss.GENROU.n != ref2.GENROU.n and ss.exit_code == 0:
                    res.violate("corrupt_file_accepted", "garbled dyr was accepted: %d GENROU devices instead of %d, exit_code 0" % (ss.GENROU.n, ref2.GENROU.n),
                                fault=spec["fault"])
                else:
                    res.count("failures_reported")
            else:
                res.count("failures_reported" if not ok else "successes_validated")
    res.sig = "file:" + spec["fault"]
    res.nontrivial = True


def run_seq(spec, res):
    from vf import au
    s = spec["seq"]
    res.count("fault_cases")
    ss = au.load("kundur/kundur_full.xlsx")
    ss.TDS.config.no_tqdm = 1
    ss.TDS.config.tf = 0.5

    def refused(r, name):
        res.count("dependent_routine_checks")
        if r:
            res.violate("dependent_routine_ran", "sequence %s: %s returned True" % (s, name), routine=name)
        else:
            res.count("failures_reported")
    try:
        if s == "tds_without_pf":
            refused(ss.TDS.run(), "TDS.run without power flow")
            if ss.exit_code == 0:
                res.violate("failure_exit_code_zero", "TDS refused without power flow but exit_code is 0")
        elif s == "eig_without_pf":
            refused(ss.EIG.run(), "EIG.run without power flow")
            if ss.exit_code == 0:
                res.violate("failure_exit_code_zero", "EIG refused without power flow but exit_code is 0")
        elif s in ("tds_after_failed_pf", "eig_after_failed_pf"):
            ss.PQ.p0.v[:] = ss.PQ.p0.v * 20
            pf = ss.PFlow.run()
            if pf:
                res.inconc("power flow unexpectedly converged")
                return
            refused(getattr(ss, "TDS" if s.startswith("tds") else "EIG").run(), s)
        elif s.startswith("pf_ok_then_pf_fails"):
            # the verdict of a run must be its own: an earlier converged run on the same System proves nothing
            if not ss.PFlow.run():
                res.inconc("first power flow failed")
                return
            how = s.split(":")[1] if ":" in s else "load"
            if how == "load":
                ss.PQ.alter("p0", ss.PQ.idx.v, ss.PQ.p0.vin * 40)
            elif how == "x_nan":
                ss.Line.alter("x", ss.Line.idx.v[2], float("nan"))
            else:
                ss.PQ.alter("p0", ss.PQ.idx.v, ss.PQ.p0.vin * 1.3)
                ss.PFlow.config.max_iter = 1
            code0 = int(ss.exit_code)
            flag = bool(ss.PFlow.run())
            valid, why = pf_verdict(ss)
            res.count("repeated_power_flows")
            if flag and valid is False:
                res.violate("success_with_invalid_state", "sequence %s: the second PFlow.run() returned True, its state is invalid (%s; last mismatch %.3g)" % (
                    s, why, float(ss.PFlow.mis[-1]) if len(ss.PFlow.mis) else float("nan")), seq=s)
            elif not flag:
                res.count("failures_reported")
                if int(ss.exit_code) == code0:
                    res.violate("failure_exit_code_zero", "sequence %s: the second PFlow.run() returned False but exit_code stayed %d" % (s, code0))
                if bool(ss.PFlow.converged):
                    res.violate("converged_flag_stale", "sequence %s: PFlow.run() returned False but PFlow.converged is still True" % s)
            else:
                res.count("successes_validated")
            if s.endswith("then_tds") and valid is False:
                refused(ss.TDS.run(), "TDS.run after a failed second power flow")
        elif s == "eig_after_failed_init":
            ss.PFlow.run()
            ss.GENROU.gammap.v[:] = 0.5
            ss.TDS.init()
            if ss.TDS.test_ok is not False:
                res.inconc("initialisation did not fail")
                return
            r = ss.EIG.run()
            res.count("dependent_routine_checks")
            if r and ss.exit_code == 0:
                res.violate("dependent_routine_ran", "EIG ran on a failed initialisation and exit_code is 0")
            elif r:
                res.violate("eig_success_after_failed_init", "initialisation reported failure (exit_code %d) and EIG.run() still returned True" % ss.exit_code)
            else:
                res.count("failures_reported")
        else:
            ok = ss.PFlow.run() and ss.TDS.run()
            if not ok or ss.exit_code != 0:
                res.violate("valid_sequence_failed", "PF + TDS on kundur_full: flags %s exit_code %d" % (ok, ss.exit_code))
            else:
                res.count("successes_validated")
    except Exception as e:
        res.count("failures_reported")
        res.note("sequence raised %r" % (e,))
    res.sig = "seq:" + s
    res.nontrivial = True
    res.sample = dict(sequence=s, exit_code=int(ss.exit_code))


def run_cli(spec, res):
    """Process exit status of ``python -m andes run ...``."""
    from vf import au
    w = spec["which"]
    res.count("fault_cases")
    with au.Scratch("c17") as sd:
        args = ["run"]
        expect_fail = True
        if w == "cli_ok":
            args += [au.case("kundur/kundur_full.xlsx"), "-r", "tds", "--tf", "0.3"]
            expect_fail = False
        elif w == "cli_pf_diverges":
            ss = au.load("ieee14/ieee14_full.xlsx")
            ss.PQ.alter("p0", ss.PQ.idx.v, ss.PQ.p0.vin * 25)
            import andes
            p = os.path.join(sd, "heavy.json")
            andes.io.dump(ss, "json", full_path=p, overwrite=True)
            args += [p]
        elif w == "cli_missing_file":
            args += [os.path.join(sd, "nope.xlsx")]
        elif w == "cli_tds_fails":
            ss = au.load("kundur/kundur_full.xlsx", setup=False)
            ss.add("Fault", dict(bus=ss.Bus.idx.v[0], tf=0.1, tc=1.9, xf=1e-5))
            import andes
            p = os.path.join(sd, "fault.json")
            andes.io.dump(ss, "json", full_path=p, overwrite=True)
            args += [p, "-r", "tds", "--tf", "2", "-O", "TDS.shrinkt=0", "TDS.tstep=0.5"]
        elif w == "cli_corrupt":
            p, _ = make_file(sd, "truncated_json")
            args += [p]
        elif w == "cli_failed_init":
            args += [au.case("ieee14/ieee14_zip.json"), "-r", "tds", "--tf", "0.2"]
        args += ["-o", sd, "-n"] if False else ["--no-output"]
        # both entry points: the console script and the module
        entry = [os.path.join(os.path.dirname(sys.executable), "andes")] if spec.get("seed", 0) % 2 == 0 and w != "cli_ok" else [sys.executable, "-m", "andes"]
        r = subprocess.run(entry + args, capture_output=True, text=True, timeout=600, cwd=sd)
        res.count("cli_runs")
        r2 = subprocess.run([sys.executable, "-m", "andes"] + args, capture_output=True, text=True, timeout=600, cwd=sd) if entry[0].endswith("andes") else r
        if (r.returncode == 0) != (r2.returncode == 0):
            res.violate("cli_entry_points_disagree", "%s: console script exits with %d, python -m andes with %d" % (w, r.returncode, r2.returncode), which=w)
        res.sample = dict(which=w, returncode=r.returncode, tail=(r.stdout + r.stderr)[-200:])
        if expect_fail and r.returncode == 0:
            res.violate("cli_exit_zero_on_failure", "command line %s exited with status 0: %s" % (w, (r.stdout + r.stderr)[-300:].replace("\n", " | ")), which=w)
        elif not expect_fail and r.returncode != 0:
            res.violate("cli_exit_nonzero_on_success", "command line %s exited with status %d: %s" % (w, r.returncode, (r.stdout + r.stderr)[-300:]))
        elif expect_fail:
            res.count("failures_reported")
        else:
            res.count("successes_validated")
    res.sig = w
    res.nontrivial = True


def run_case(spec):
    res = Result(spec)
    {"pf": run_pf, "tds": run_tds, "file": run_file, "seq": run_seq, "cli": run_cli}[spec["kind"]](spec, res)
    return res


def finding_key(w, spec):
    return w.get("mech")


def on_watchdog(spec, r, rerun):
    r2 = rerun(spec, 4 * spec.get("timeout", TIMEOUT))
    if r2.get("watchdog"):
        r2["verdict"] = "violated"
        r2["violations"] = [dict(mech="routine_hangs", msg="case %s did not return within 5x the watchdog" % spec.get("id"), data={})]
    return r2
