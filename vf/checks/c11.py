"""
C11 - Per-unit conversion and parameter alteration keep both value bases consistent.

(a) every flagged NumParam of loaded systems: v == vin * k and pu_coeff == k with k from an own
    textbook table of base ratios (vf.oracle.puk); stock cases and generated networks with random
    device / system bases;
(b) random histories of Model.alter / Group.alter (attr v | vin) / set / dump(xlsx, json) / reset,
    placed after set-up, after power flow and after dynamic initialisation, against a shadow model of
    (vin, v); every dump is re-read with pandas / json and must hold the shadow input values;
(c) "takes effect": the function inputs hold the altered number (same array), a parameter altered
    before power flow gives the C01-oracle solution of the new data, an altered time constant is in
    dae.Tf / Teye and the trajectory equals that of a system built with the new value.
"""
import json
import os

import numpy as np

from vf.util import Result, rng_for

PROPERTY = "C11"
LEVEL = "exploration"
TIMEOUT = 900
RULE = ("(a) all flagged parameters of stock cases and of generated networks (system base in {50,100,1000}, device Sn / Vn off the "
        "bus base); (b) 10-40 random operations per history on PQ/PV/Line/Shunt/GENROU/GENCLS/exciter/governor parameters across "
        "the three stages; (c) targeted probes. Non-trivial: >= 50 parameters checked (a) or >= 8 operations (b); distinct = "
        "(case | history seed).")
ASSUMPTIONS = ["k table: power Sn/Sb, ipower Sb/Sn, voltage Vn/Vb, current (Sn/Vn)/(Sb/Vb), z (Vn^2/Sn)/(Vb^2/Sb), y inverse of z, "
               "dc_voltage Vdcn/Vdcb, dc_current Idcn/Idcb, r (Vdcn/Idcn)/(Vdcb/Idcb), g inverse of r",
               "alter(attr='v', value) takes value on the input base; alter(attr='vin', value) takes value on the system base (as documented)"]
REQUIRED_OBS = {"flagged_params_checked": 2000, "history_operations": 300, "dumps_reread": 20, "effect_probes": 6}

CASES = ["kundur/kundur_full.xlsx", "ieee14/ieee14_full.xlsx", "ieee39/ieee39_full.xlsx", "wecc/wecc_full.xlsx", "npcc/npcc.xlsx",
         "kundur/kundur_vsc.xlsx", "ieee14/ieee14_wt3.xlsx", "ieee14/ieee14_pvd1.xlsx", "kundur/kundur_motor.xlsx", "GBnetwork/GBnetwork.xlsx",
         "nordic44/N44_BC.raw", "matpower/case300.m", "ieee14/ieee14_esd1.xlsx", "5bus/pjm5bus.xlsx", "ei/EI_33.xlsx"]


def cases(tier, seed):
    out = []
    for c in (CASES[:8] if tier == "quick" else CASES):
        out.append(dict(id="pu:" + c, kind="pu", case=c))
    n = 8 if tier == "quick" else 100
    for i in range(n):
        out.append(dict(id="pugen%03d" % i, kind="pugen", index=i))
    n = 16 if tier == "quick" else 200
    for i in range(n):
        out.append(dict(id="hist%03d" % i, kind="hist", index=i))
    from vf import au
    dyn = [c for c in au.stock_cases((".xlsx", ".json")) if "dyn_only" not in c]
    for c in (dyn[::4] + ["ieee14/ieee14_solar.xlsx", "ieee14/ieee14_wt3.xlsx"] if tier == "quick" else dyn):
        out.append(dict(id="tcsweep:" + c, kind="tcsweep", case=c))
    for p in ("pf_after_alter", "tconst", "inputs", "json_after_alter", "reset", "group_alter"):
        out.append(dict(id="probe:" + p, kind="probe", probe=p))
    return out


def worker_init():
    from vf import au
    au.quiet()


# ------------------------------------------------------------------------------------------------

def own_k(ss, mdl):
    """Textbook base ratios per device for each quantity kind, computed from the input data only."""
    n = mdl.n
    Sb = float(ss.config.mva)
    pos = {b: i for i, b in enumerate(ss.Bus.idx.v)}
    bus_Vn = np.array(ss.Bus.Vn.vin if ss.Bus.Vn.vin is not None else ss.Bus.Vn.v, dtype=float)

    def par(name):
        p = mdl.__dict__.get(name)
        if p is None:
            return None
        v = p.vin if getattr(p, "vin", None) is not None else p.v
        return np.array(v, dtype=float)
    Sn = par("Sn") if "Sn" in mdl.__dict__ else np.full(n, Sb)
    Vb = Vn = np.ones(n)
    if "bus" in mdl.__dict__:
        Vb = np.array([bus_Vn[pos[b]] for b in mdl.bus.v], dtype=float)
        Vn = par("Vn") if "Vn" in mdl.__dict__ else Vb
    elif "bus1" in mdl.__dict__:
        Vb = np.array([bus_Vn[pos[b]] for b in mdl.bus1.v], dtype=float)
        Vn = par("Vn1") if "Vn1" in mdl.__dict__ else Vb
    Vdcb = Vdcn = Idcn = np.ones(n)
    has_dc = False
    if "node" in mdl.__dict__ or "node1" in mdl.__dict__:
        has_dc = True
        npos = {b: i for i, b in enumerate(ss.Node.idx.v)}
        nodeV = np.array(ss.Node.Vdcn.vin if ss.Node.Vdcn.vin is not None else ss.Node.Vdcn.v, dtype=float)
        key = "node" if "node" in mdl.__dict__ else "node1"
        Vdcb = np.array([nodeV[npos[b]] for b in mdl.__dict__[key].v], dtype=float)
        vname = "Vdcn" if key == "node" else "Vdcn1"
        Vdcn = par(vname) if vname in mdl.__dict__ else Vdcb
        Idcn = par("Idcn") if "Idcn" in mdl.__dict__ else Sb / Vdcb
    Idcb = Sb / Vdcb
    Zn, Zb = Vn ** 2 / Sn, Vb ** 2 / Sb
    k = dict(power=Sn / Sb, ipower=Sb / Sn, voltage=Vn / Vb, current=(Sn / Vn) / (Sb / Vb), z=Zn / Zb, y=Zb / Zn,
             dc_voltage=Vdcn / Vdcb, dc_current=Idcn / Idcb, r=(Vdcn / Idcn) / (Vdcb / Idcb), g=(Vdcb / Idcb) / (Vdcn / Idcn))
    return k


def check_pu(res, ss, tag):
    from andes.core.param import ExtParam, NumParam
    for mname, mdl in ss.models.items():
        if mdl.n == 0:
            continue
        try:
            k = own_k(ss, mdl)
        except Exception as e:
            res.note("%s: own base table failed for %s: %r" % (tag, mname, e))
            continue
        for pname, p in mdl.params.items():
            if not isinstance(p, NumParam) or isinstance(p, ExtParam) or p.vin is None:
                continue
            kinds = [kk for kk in k if p.get_property(kk)]
            if len(kinds) != 1:
                if len(kinds) > 1:
                    res.note("%s.%s carries several quantity flags %s" % (mname, pname, kinds))
                continue
            kk = k[kinds[0]] * np.ones(mdl.n)
            vin = np.array(p.vin, dtype=float)
            v = np.array(p.v, dtype=float)
            res.count("flagged_params_checked", mdl.n)
            if np.any(kk != 1.0):
                res.count("flagged_params_with_nontrivial_base", int(np.sum(kk != 1.0)))
            with np.errstate(all="ignore"):
                okc = np.isclose(np.array(p.pu_coeff, dtype=float), kk, rtol=1e-12, atol=0)
                okv = np.isclose(v, vin * kk, rtol=1e-12, atol=1e-300) | (np.isnan(v) & np.isnan(vin))
            if not np.all(okc & okv):
                j = int(np.where(~(okc & okv))[0][0])
                res.violate("pu_conversion", "%s: %s.%s (%s) of device %r: input %r, system-base %r, coefficient %r; textbook ratio %r" % (
                    tag, mname, pname, kinds[0], mdl.idx.v[j], float(vin[j]), float(v[j]), float(np.array(p.pu_coeff)[j]), float(kk[j])),
                    model=mname, param=pname, kind=kinds[0])
                break


def run_pu(spec, res):
    from vf import au
    kw = {}
    d = au.dyr_for(spec["case"])
    if d:
        kw["addfile"] = au.case(d)
    ss = au.load(spec["case"], **kw)
    check_pu(res, ss, spec["case"])
    res.sig = "pu:" + spec["case"]
    res.nontrivial = res.obs.get("flagged_params_checked", 0) >= 50
    res.sample = dict(case=spec["case"], checked=res.obs.get("flagged_params_checked", 0), nontrivial_base=res.obs.get("flagged_params_with_nontrivial_base", 0))


def run_pugen(spec, res):
    from vf.gen import network as gn
    rng = rng_for(spec.get("seed", 0), PROPERTY, 1, spec["index"])
    net = gn.gen_network(rng, hard=True)
    net = gn.present(net, rng, shuffle=bool(rng.integers(0, 2)), idx_style=["num", "str"][int(rng.integers(0, 2))], rebase=True)
    ss = gn.build_system(net)
    check_pu(res, ss, "generated network %d" % spec["index"])
    res.sig = "pugen:%d:%d" % (spec.get("seed", 0), spec["index"])
    res.nontrivial = res.obs.get("flagged_params_with_nontrivial_base", 0) >= 10
    res.sample = dict(mva=net["mva"], buses=len(net["bus"]), checked=res.obs.get("flagged_params_checked", 0),
                      nontrivial_base=res.obs.get("flagged_params_with_nontrivial_base", 0))


# ------------------------------------------------------------------------------------------------

TARGETS = [("PQ", "p0"), ("PQ", "q0"), ("PV", "p0"), ("PV", "v0"), ("Line", "x"), ("Line", "r"), ("Line", "b"), ("Shunt", "b"), ("GENROU", "M"),
           ("GENROU", "D"), ("GENROU", "xd"), ("GENROU", "xq"), ("GENROU", "ra"), ("GENCLS", "M"), ("EXDC2", "KA"), ("EXDC2", "TA"),
           ("TGOV1", "R"), ("TGOV1", "T1"), ("TGOV1", "VMAX"), ("EXST1", "KA"), ("ESST3A", "KA"), ("Line", "tap"), ("PV", "qmax")]


def reread(path, model, idx, pname):
    """Value of one parameter of one device in a dumped file, read without ANDES."""
    if path.endswith(".json"):
        d = json.load(open(path))
        for row in d.get(model, []):
            if row.get("idx") == idx or str(row.get("idx")) == str(idx):
                return row.get(pname)
        return None
    import pandas as pd
    df = pd.read_excel(path, sheet_name=model, engine="openpyxl")
    sel = df[df["idx"].astype(str) == str(idx)]
    if len(sel) == 0:
        return None
    return sel.iloc[0][pname]


def run_hist(spec, res):
    import andes
    from vf import au
    rng = rng_for(spec.get("seed", 0), PROPERTY, 2, spec["index"])
    case = ["kundur/kundur_full.xlsx", "ieee14/ieee14_full.xlsx", "ieee14/ieee14_esst3a.xlsx", "kundur/kundur_exst1.xlsx", "5bus/pjm5bus.xlsx",
            "ieee14/ieee14_solar.xlsx", "ieee14/ieee14_wt3.xlsx", "ieee14/ieee14_regcp1.xlsx"][int(rng.integers(0, 8))]
    with au.Scratch("c11") as sd:
        rc = au.write_rc(os.path.join(sd, "a.rc"), {"System": dict(mva=float(rng.choice([100, 100, 50, 200]))), "TDS": dict(no_tqdm=1), "PFlow": dict(report=0)})
        ss = au.load(case, config_path=rc)
        avail = [(m, p) for m, p in TARGETS if getattr(ss, m).n > 0 and p in getattr(ss, m).params]
        # every parameter that is the time constant of one or several differential equations of a model in this system
        from andes.core.param import NumParam
        tcs = []
        for mn, md in ss.exist.tds.items():
            if md.n == 0:
                continue
            for st in md.states.values():
                if st.t_const is not None and isinstance(st.t_const, NumParam) and st.t_const.name in md.params and (mn, st.t_const.name) not in tcs:
                    tcs.append((mn, st.t_const.name))
        res.count("time_constant_parameters_available", len(tcs))
        shadow = {}       # (model, param, idx) -> [vin, v]
        nops = int(rng.integers(10, 41))
        stage = 0
        log = []
        for op in range(nops):
            # stage transitions
            if stage == 0 and op > nops * 0.3 and rng.random() < 0.5:
                if not ss.PFlow.run():
                    res.note("power flow failed after alterations")
                    break
                stage = 1
                log.append("PFlow.run")
            elif stage == 1 and op > nops * 0.6 and rng.random() < 0.5:
                ss.TDS.init()
                stage = 2
                log.append("TDS.init")
            m, p = avail[int(rng.integers(0, len(avail)))]
            if tcs and rng.random() < 0.3:
                m, p = tcs[int(rng.integers(0, len(tcs)))]
            M = getattr(ss, m)
            par = getattr(M, p)
            j = int(rng.integers(0, M.n))
            idx = M.idx.v[j]
            key = (m, p, idx)
            if key not in shadow:
                shadow[key] = [float(par.vin[j]), float(par.v[j])]
            kco = float(par.pu_coeff[j])
            kind = int(rng.integers(0, 6))
            newv = float(shadow[key][0] * rng.uniform(0.8, 1.2) + (0.01 if shadow[key][0] == 0 else 0.0))
            res.count("history_operations")
            try:
                if kind == 0:
                    M.alter(p, idx, newv)
                    shadow[key] = [newv, newv * kco]
                    log.append("%s.alter(%s, %r, %.6g)" % (m, p, idx, newv))
                elif kind == 1:
                    M.alter(p, idx, newv * kco, attr="vin")
                    shadow[key] = [newv * kco / kco, newv * kco]
                    log.append("%s.alter(%s, %r, %.6g, attr='vin')" % (m, p, idx, newv * kco))
                elif kind == 2:
                    grp = ss.groups[M.group]
                    if p in grp.common_params or True:
                        grp.alter(p, idx, newv)
                        shadow[key] = [newv, newv * kco]
                        log.append("%s.alter(%s, %r, %.6g)" % (M.group, p, idx, newv))
                elif kind == 3:
                    M.set(p, idx, "v", newv * kco)
                    shadow[key][1] = newv * kco
                    log.append("%s.set(%s, %r, 'v', %.6g)" % (m, p, idx, newv * kco))
                elif kind in (4, 5):
                    fmt = "xlsx" if kind == 4 else "json"
                    path = os.path.join(sd, "dump%d.%s" % (op, fmt))
                    andes.io.dump(ss, fmt, full_path=path, overwrite=True)
                    res.count("dumps_reread")
                    log.append("dump(%s)" % fmt)
                    for (mm, pp, ii), (vin, v) in shadow.items():
                        got = reread(path, mm, ii, pp)
                        if got is None or not np.isclose(float(got), vin, rtol=1e-12, atol=1e-300):
                            res.violate("export_stale", "after %s: the %s export holds %s.%s[%r] = %r, the altered input value is %r" % (
                                log[-6:], fmt, mm, pp, ii, got, vin), fmt=fmt, model=mm, param=pp)
                            break
            except Exception as e:
                res.violate("alter_raises", "operation %s raised %r (history %s)" % (log[-1:] if log else None, e, log[-5:]))
                break
            # shadow comparison after every operation
            for (mm, pp, ii), (vin, v) in shadow.items():
                P = getattr(getattr(ss, mm), pp)
                u = getattr(ss, mm).idx2uid(ii)
                if not (np.isclose(P.vin[u], vin, rtol=1e-12, atol=1e-300) and np.isclose(P.v[u], v, rtol=1e-12, atol=1e-300)):
                    res.violate("alter_inconsistent", "after %s: %s.%s[%r] holds (vin, v) = (%r, %r), expected (%r, %r)" % (
                        log[-4:], mm, pp, ii, float(P.vin[u]), float(P.v[u]), vin, v), model=mm, param=pp)
                    break
                # the number the equations will see
                # (only for models that are initialised at this stage: looking into the inputs of a dynamic model before
                #  TDS.init() would evaluate its services on empty arrays - an artefact of looking, not of ANDES)
                if stage < 2 and not getattr(ss, mm).flags.pflow:
                    continue
                inp = getattr(ss, mm).get_inputs()
                if pp in inp and not (np.shares_memory(inp[pp], P.v) or np.array_equal(inp[pp], P.v)):
                    res.violate("alter_not_in_effect", "after %s: the function inputs of %s still hold %r for %s (parameter is %r)" % (
                        log[-4:], mm, float(np.asarray(inp[pp])[u]), pp, float(P.v[u])), model=mm, param=pp)
                    break
            if res.violations:
                break
            # time constants go to dae.Tf
            if stage == 2:
                # invariant over the whole system: every differential equation's slot in dae.Tf and in the integrator's
                # mass matrix holds the time constant its model holds now
                Teye = ss.TDS.Teye
                for md in ss.exist.tds.values():
                    if md.n == 0 or res.violations:
                        continue
                    for st in md.states.values():
                        if st.t_const is None or not len(st.a):
                            continue
                        addr = np.atleast_1d(st.a).astype(int)
                        want = np.broadcast_to(np.asarray(st.t_const.v, dtype=float), addr.shape)
                        res.count("time_constant_slots_checked", len(addr))
                        got = ss.dae.Tf[addr]
                        gotT = np.array([Teye[int(a_), int(a_)] for a_ in addr])
                        if not (np.array_equal(got, want) and np.array_equal(gotT, want)):
                            k_ = int(np.where((got != want) | (gotT != want))[0][0])
                            res.violate("tf_not_updated", "after %s: dae.Tf / Teye of %s.%s[%d] hold %r / %r, its time constant %s is %r" % (
                                log[-3:], md.class_name, st.name, k_, float(got[k_]), float(gotT[k_]), st.t_const.name, float(want[k_])),
                                model=md.class_name, state=st.name)
                            break
        # reset restores v = vin * k for everything (only allowed before dynamic initialisation)
        if stage < 2 and not res.violations:
            ss.reset()
            res.count("resets")
            check_pu(res, ss, "after reset() following %s" % log[-3:])
            for (mm, pp, ii), (vin, v) in shadow.items():
                P = getattr(getattr(ss, mm), pp)
                u = getattr(ss, mm).idx2uid(ii)
                if not np.isclose(P.vin[u], vin, rtol=1e-12, atol=1e-300):
                    res.violate("reset_lost_input", "reset() changed the input value of %s.%s[%r]: %r -> %r" % (mm, pp, ii, vin, float(P.vin[u])))
                    break
    res.sig = "hist:%d:%d" % (spec.get("seed", 0), spec["index"])
    res.nontrivial = res.obs.get("history_operations", 0) >= 8
    res.sample = dict(case=case, operations=log[:12], stage_reached=stage)


# ------------------------------------------------------------------------------------------------

def run_tcsweep(spec, res):
    """After dynamic initialisation: alter every time-constant parameter of every model of the case in turn (one device each);
    every differential equation using it must see the new value in dae.Tf and in the integrator's mass matrix."""
    from vf import au
    from andes.core.param import NumParam
    rng = rng_for(spec.get("seed", 0), PROPERTY, 5, abs(hash(spec["case"])) % 9973)
    ss = au.load(spec["case"])
    res.sig = "tcsweep:" + spec["case"]
    if ss.dae.n == 0 and not any(md.n and md.flags.tds and len(md.states) for md in ss.models.values()):
        res.count("tcsweep_no_dynamic_models")
        return
    if not ss.PFlow.run():
        res.inconc("power flow failed")
        return
    ss.TDS.config.no_tqdm = 1
    ss.TDS.init()
    for mn, md in ss.exist.tds.items():
        if md.n == 0:
            continue
        users = {}
        for st in md.states.values():
            if st.t_const is not None and isinstance(st.t_const, NumParam) and st.t_const.name in md.params and len(st.a):
                users.setdefault(st.t_const.name, []).append(st)
        for pn, sts in users.items():
            j = int(rng.integers(0, md.n))
            par = md.params[pn]
            old = float(par.vin[j])
            new = old * 1.37 if old != 0 else 0.137
            # the four documented ways of changing a parameter of a device: model / group, alter (input base) / set (system base)
            channel = ["model.alter", "group.alter", "model.set", "group.set"][res.obs.get("tcsweep_alterations", 0) % 4]
            kco_ = float(par.pu_coeff[j])
            try:
                if channel == "model.alter":
                    md.alter(pn, md.idx.v[j], new)
                elif channel == "group.alter":
                    ss.groups[md.group].alter(pn, md.idx.v[j], new)
                elif channel == "model.set":
                    md.set(pn, md.idx.v[j], "v", new * kco_)
                else:
                    ss.groups[md.group].set(pn, md.idx.v[j], "v", new * kco_)
            except Exception as e:
                res.violate("alter_raises", "%s: %s(%s.%s, %r, %g) after TDS.init raised %r" % (spec["case"], channel, mn, pn, md.idx.v[j], new, e))
                return
            res.count("tcsweep_via_" + channel.replace(".", "_"))
            mn = "%s [%s]" % (md.class_name, channel)
            res.count("tcsweep_alterations")
            if len(sts) > 1:
                res.count("tcsweep_shared_time_constants")
            for st in sts:
                a_ = int(np.atleast_1d(st.a)[j])
                res.count("time_constant_slots_checked")
                got, gotT, want = float(ss.dae.Tf[a_]), float(ss.TDS.Teye[a_, a_]), float(par.v[j])
                if got != want or gotT != want:
                    res.violate("tf_not_updated", "%s: after %s.alter(%s, %r, %g) dae.Tf / Teye of state %s hold %r / %r, the parameter is %r "
                                "(%d states use this time constant)" % (spec["case"], mn, pn, md.idx.v[j], new, st.name, got, gotT, want, len(sts)),
                                model=mn, state=st.name)
                    return
    res.nontrivial = res.obs.get("tcsweep_alterations", 0) >= 3
    res.sample = dict(case=spec["case"], alterations=res.obs.get("tcsweep_alterations", 0), shared=res.obs.get("tcsweep_shared_time_constants", 0))


def run_probe(spec, res):
    import andes
    from vf import au
    from vf.checks import c01
    p = spec["probe"]
    res.count("effect_probes")
    with au.Scratch("c11") as sd:
        if p == "pf_after_alter":
            # a parameter altered before power flow: the solution satisfies the balance of the NEW data (C01 oracle reads vin)
            ss = au.load("ieee14/ieee14_full.xlsx")
            ss.PQ.alter("p0", ss.PQ.idx.v[0], float(ss.PQ.p0.vin[0] * 1.3))
            ss.Line.alter("x", ss.Line.idx.v[3], float(ss.Line.x.vin[3] * 1.5))
            ss.PV.alter("v0", ss.PV.idx.v[0], 1.03)
            ok, err = c01.run_pf(ss)
            if not ok:
                res.violate("pf_after_alter", "power flow failed after moderate alterations")
            else:
                c01.check_solution(res, ss, "after alter", float(ss.PFlow.config.tol))
        elif p == "tconst":
            # altering a time constant after initialisation changes the dynamics like a system built with it
            def run(alter_after):
                ss = au.load("kundur/kundur_full.xlsx", setup=False)
                if not alter_after:
                    ss.GENROU.M.v[1] = ss.GENROU.M.v[1] * 1.6
                ss.setup()
                ss.PFlow.run()
                ss.TDS.config.no_tqdm = 1
                ss.TDS.config.tf = 3.0
                ss.TDS.init()
                if alter_after:
                    ss.GENROU.alter("M", ss.GENROU.idx.v[1], float(ss.GENROU.M.vin[1] * 1.6))
                ss.TDS.run()
                return ss
            a, b = run(True), run(False)
            d = float(np.max(np.abs(np.array(a.dae.ts.x) - np.array(b.dae.ts.x)))) if np.array(a.dae.ts.x).shape == np.array(b.dae.ts.x).shape else float("inf")
            res.maxobs("max_tconst_trajectory_difference", d)
            if d > 1e-8:
                res.violate("tconst_not_in_effect", "altering GENROU.M after TDS.init gives a trajectory differing by %.3e from a system built with that M" % d)
            # and it must differ from the unaltered run (the alteration is not a no-op)
            c = au.load("kundur/kundur_full.xlsx")
            c.PFlow.run()
            c.TDS.config.no_tqdm = 1
            c.TDS.config.tf = 3.0
            c.TDS.run()
            if np.max(np.abs(np.array(c.dae.ts.x)[-1] - np.array(a.dae.ts.x)[-1])) < 1e-6:
                res.violate("tconst_not_in_effect", "altering GENROU.M by 60% does not change the trajectory")
        elif p == "inputs":
            ss = au.load("kundur/kundur_full.xlsx")
            ss.PFlow.run()
            ss.TDS.config.no_tqdm = 1
            ss.TDS.init()
            for m, pn in (("EXDC2", "KA"), ("TGOV1", "R"), ("GENROU", "D")):
                M = getattr(ss, m)
                M.alter(pn, M.idx.v[0], float(getattr(M, pn).vin[0] * 1.25))
            # the residual after the alteration equals the declared expressions evaluated with the new values
            from vf.checks import c02
            models = ss.exist.pflow_tds
            ss.dae.clear_fg()
            ss.s_update_var(models)
            ss.l_update_var(models, niter=0, err=1.0)
            ss.f_update(models)
            ss.l_update_eq(models, niter=0)
            ss.g_update(models)
            for m in ("EXDC2", "TGOV1", "GENROU"):
                M = getattr(ss, m)
                o = c02.oracle_e(res, ss, M, models)
                vals = {k: getattr(M, k).v for k in ("KA", "R", "D") if k in M.params}
                for name, var in list(M.states.items()) + list(M.algebs.items()):
                    if var.e_str is None or o is None:
                        continue
                    ok, _ = c02.agree(np.array(var.e), o[name], o["__slack__"].get(name))
                    if not ok:
                        # pegged states are rewritten by limiters: skip those
                        if any(getattr(d, "state", None) is var or getattr(d, "u", None) is var for d in M.discrete.values() if d.has_check_eq):
                            continue
                        res.violate("alter_not_in_effect", "%s.%s after alter: equation value %s differs from the declared expression with the new "
                                    "parameters %s" % (m, name, np.array(var.e)[:2], o[name][:2]))
        elif p == "json_after_alter":
            ss = au.load("ieee14/ieee14_full.xlsx")
            p1 = os.path.join(sd, "a.json")
            andes.io.dump(ss, "json", full_path=p1, overwrite=True)
            new = float(ss.PQ.p0.vin[0] * 1.7)
            ss.PQ.alter("p0", ss.PQ.idx.v[0], new)
            for fmt in ("json", "xlsx"):
                p2 = os.path.join(sd, "b." + fmt)
                andes.io.dump(ss, fmt, full_path=p2, overwrite=True)
                got = reread(p2, "PQ", ss.PQ.idx.v[0], "p0")
                if got is None or not np.isclose(float(got), new, rtol=1e-12):
                    res.violate("export_stale", "alter after a first dump: the second %s export holds p0 = %r, altered value %r" % (fmt, got, new), fmt=fmt)
        elif p == "reset":
            ss = au.load("kundur/kundur_full.xlsx")
            ss.PFlow.run()
            ss.Line.set("x", ss.Line.idx.v[0], "v", 9.99)
            ss.reset()
            check_pu(res, ss, "after set + reset")
        elif p == "group_alter":
            ss = au.load("kundur/kundur_full.xlsx")
            g = ss.StaticGen
            idx = ss.PV.idx.v[0]
            g.alter("p0", idx, 6.5)
            if not (ss.PV.p0.vin[0] == 6.5 and np.isclose(ss.PV.p0.v[0], 6.5 * ss.PV.p0.pu_coeff[0])):
                res.violate("alter_inconsistent", "StaticGen.alter(p0) left PV.p0 (vin, v) = (%r, %r)" % (ss.PV.p0.vin[0], ss.PV.p0.v[0]))
    res.sig = "probe:" + p
    res.nontrivial = True
    res.sample = dict(probe=p)


def run_case(spec):
    res = Result(spec)
    {"pu": run_pu, "pugen": run_pugen, "hist": run_hist, "probe": run_probe, "tcsweep": run_tcsweep}[spec["kind"]](spec, res)
    return res


def finding_key(w, spec):
    return w.get("mech")
