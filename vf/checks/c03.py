"""
C03 - Jacobians are the exact residual derivatives, stored at the right addresses.

(a) symbolic level: every entry of every generated ``<jname>_update`` tuple (and the constants) of
    every model is compared with a Richardson-extrapolated central difference of the *C02 oracle*
    of the row's declared equation with respect to the column's variable (no sympy.diff involved);
    completeness: every (equation, variable) pair with a non-zero derivative must be listed.
(b) assembled level: on loaded systems the real ``j_update`` result (dae.fx, fy, gx, gy) is compared
    with finite differences of the real assembled residual along unit directions, VarService values
    frozen, flag-flipping directions / pegged states / numeric-code models excluded with a reason.
(c) pattern: a recorder on ``System.j_update`` during live simulations; the (I, J) pattern of the four
    matrices must equal the stored template at every update, for ipadd = 1 and 0.
"""
import numpy as np

from vf.util import Result, rng_for

PROPERTY = "C03"
LEVEL = "exploration"
TIMEOUT = 1200
RULE = ("(a) all shipped models x all Jacobian entries x 3 sample points (flags one-hot, values away from breakpoints, entries whose "
        "two difference quotients disagree are counted as non-smooth and skipped); (b) stock cases after PF, after TDS.init and "
        "mid-simulation, with random devices switched off, ipadd in {0,1}; (c) every j_update of short live simulations. "
        "Non-trivial: >= 5 entries (a) or >= 200 matrix entries (b) compared; distinct = model | (case, state, ipadd).")
ASSUMPTIONS = ["derivative oracle: (4 D(h/2) - D(h)) / 3 with h = 1e-5 max(1, |x|) on the ast evaluator of the declared string; "
               "agreement 1e-6 (1 + |J|)",
               "VarService values are held frozen while differencing (documented as lagged quantities that are not differentiated)",
               "rows of models with hand-written numeric f/g/j code, rows of pegged states and columns that flip a discrete flag are excluded"]
REQUIRED_OBS = {"jac_entries_compared": 3000, "models_checked": 80, "assembled_entries_compared": 20000, "pattern_updates_checked": 50,
                "completeness_pairs_checked": 2000}
INCONCLUSIVE_CAP = 0.08

LIVE = ["kundur/kundur_full.xlsx", "ieee14/ieee14_full.xlsx", "5bus/pjm5bus.xlsx", "ieee14/ieee14_wt3.xlsx", "kundur/kundur_ieeest.xlsx",
        "ieee14/ieee14_pvd1.xlsx", "kundur/kundur_vsc.xlsx", "kundur/kundur_motor.xlsx", "smib/SMIB.xlsx", "wecc/wecc_gencls.xlsx",
        "ieee14/ieee14_esd1.xlsx", "ieee14/ieee14_solar.xlsx", "kundur/kundur_wtdta1.xlsx", "ieee14/ieee14_hygov.xlsx",
        "kundur/kundur_st2cut.xlsx", "ieee14/ieee14_exac1.xlsx", "kundur/kundur_coi.xlsx", "ieee14/ieee14_gast.xlsx",
        "ieee14/ieee14_esst4b.xlsx", "ieee14/ieee14_regcp1.xlsx", "kundur/kundur_reg.xlsx", "ieee14/ieee14_dgprct1.xlsx"]


def cases(tier, seed):
    from andes.models import file_classes
    out = []
    npts = 3 if tier == "quick" else 12
    for fname, cls_list in file_classes:
        for cn in cls_list:
            out.append(dict(id="model:" + cn, kind="model", model=cn, file=fname, npts=npts))
    for c in (LIVE[:8] if tier == "quick" else LIVE):
        for ipadd in (1, 0):
            out.append(dict(id="assembled:%s:ipadd%d" % (c, ipadd), kind="assembled", case=c, ipadd=ipadd, reps=(1 if tier == "quick" else 4)))
    for c in (LIVE[:4] + ["kundur/kundur_vsc.xlsx"] if tier == "quick" else LIVE[:12]):
        out.append(dict(id="pattern:" + c, kind="pattern", case=c))
    return out


def worker_init():
    from vf import au
    au.quiet()


def rich_diff(f, x0, h):
    """Richardson central difference of scalar->array function f around x0; returns (D, smooth)."""
    d1 = (f(x0 + h) - f(x0 - h)) / (2 * h)
    d2 = (f(x0 + h / 2) - f(x0 - h / 2)) / h
    D = (4 * d2 - d1) / 3
    with np.errstate(all="ignore"):
        smooth = np.abs(d1 - d2) <= 1e-4 * (1 + np.abs(D))
    return D, smooth


def term_scale(e_str, vals, sp, n):
    """Magnitude of the largest product term of an expression (cancellation leaves round-off of that size)."""
    import ast
    from vf.oracle.expr import Evaluator
    tree = ast.parse(" ".join(str(e_str).split()), mode="eval").body
    best = 1.0
    ev = Evaluator(vals, sp.subs, n)
    for node in ast.walk(tree):
        if isinstance(node, ast.BinOp) and isinstance(node.op, (ast.Mult, ast.Div)):
            try:
                with np.errstate(all="ignore"):
                    v = np.abs(np.asarray(ev._ev(node), dtype=complex))
                    v = v[np.isfinite(v)]
                    if v.size:
                        best = max(best, float(v.max()))
            except Exception:
                pass
    return best


def run_model(spec_case, res):
    import importlib
    from vf.oracle import modelspec as ms
    from vf.oracle.expr import Evaluator, Unsupported, names_in
    mod = importlib.import_module("andes.models." + spec_case["file"])
    m = ms.instantiate(getattr(mod, spec_case["model"]))
    sp = ms.Spec(m)
    gen = ms.load_generated(sp.name)
    rng = rng_for(spec_case.get("seed", 0), PROPERTY, abs(hash(sp.name)) % 100003)
    n = 6
    res.count("models_checked")
    allvars = sp.states + sp.algebs
    eq_of = {"f": (sp.states, sp.f_str), "g": (sp.algebs, sp.g_str)}
    # the set of names the equations use
    eq_names = set()
    for s in sp.f_str + sp.g_str:
        if s:
            eq_names |= names_in(s, sp.subs)
    listed = set()
    for jn, rows_ in gen.ijac.items():
        for r_, c_ in zip(rows_, gen.jjac[jn]):
            listed.add((jn[0], r_, c_))
    nent = 0
    for jname in gen.j_names:
        rows, cols = gen.ijac[jname], gen.jjac[jname]
        fn = getattr(gen, jname + "_update")
        args = gen.j_args[jname]
        names_e, strs_e = eq_of[jname[0]]
        for point in range(spec_case["npts"]):
            need = sorted(eq_names | set(args))
            vals = sp.draw_args(rng, need, n, dae_t=[-1.0, 0.5, 0.0][point % 3])
            try:
                with np.errstate(all="ignore"):
                    ret = fn(*[vals[a] for a in args])
            except Exception as e:
                res.violate("jacobian_code_raises", "%s.%s_update raised %r" % (sp.name, jname, e))
                break
            if len(ret) != len(rows):
                res.violate("jacobian_length", "%s.%s_update returns %d entries for %d listed positions" % (sp.name, jname, len(ret), len(rows)))
                break
            bad = False
            for k, (r, c) in enumerate(zip(rows, cols)):
                listed.add((jname[0], r, c))
                e_str = strs_e[r]
                vname = allvars[c]
                if e_str is None:
                    res.violate("jacobian_entry_without_equation", "%s: %s lists (%s, %s) but the row has no equation" % (sp.name, jname, names_e[r], vname))
                    continue
                base = vals[vname]

                def f(x, _e=e_str, _v=vname):
                    vv = dict(vals)
                    vv[_v] = x
                    return np.asarray(Evaluator(vv, sp.subs, n).eval(_e), dtype=float) * np.ones(n)
                try:
                    h = 1e-5 * np.maximum(1.0, np.abs(base))
                    D, smooth = rich_diff(f, base, h)
                except Unsupported:
                    res.count("expressions_unsupported_by_oracle")
                    continue
                got = np.asarray(ret[k], dtype=float) * np.ones(n)
                with np.errstate(all="ignore"):
                    # round-off of the difference quotient itself: eps * |f| / h (matters for terms like 1e8*(1 - flag))
                    fmag = np.abs(f(base))
                    okm = np.abs(got - D) <= 1e-6 * (1 + np.abs(D)) + 1e-9 + 200 * 2.2e-16 * fmag / h
                fin = np.isfinite(D) & np.isfinite(got) & smooth
                res.count("jac_entries_compared", int(fin.sum()))
                res.count("jac_entries_nonsmooth_or_nan_skipped", int((~fin).sum()))
                if np.any(fin & ~okm):
                    j = int(np.where(fin & ~okm)[0][0])
                    res.violate("jacobian_entry_wrong", "%s.%s entry d(%s)/d(%s): generated %r, difference quotient of the declared equation %r "
                                "(%s)" % (sp.name, jname, names_e[r], vname, float(got[j]), float(D[j]), str(e_str)[:120]), model=sp.name, jname=jname)
                    bad = True
                    break
            nent += len(rows)
            if bad:
                break
        # constants (diag_eps) must sit on the diagonal of the variable's own equation
        for r, c, v in zip(gen.ijac.get(jname + "c", []), gen.jjac.get(jname + "c", []), gen.vjac.get(jname + "c", [])):
            listed.add((jname[0], r, c))
            res.count("constant_entries_checked")
            if names_e[r] != allvars[c]:
                res.violate("constant_entry_misplaced", "%s: constant %r of %s at (%s, %s) is off the diagonal" % (sp.name, v, jname, names_e[r], allvars[c]))
    for jn in ("fxc", "fyc", "gxc", "gyc"):
        if jn[:2] not in gen.j_names:
            for r, c in zip(gen.ijac.get(jn, []), gen.jjac.get(jn, [])):
                listed.add((jn[0], r, c))
    # completeness
    for ecode, (names_e, strs_e) in eq_of.items():
        for r, e_str in enumerate(strs_e):
            if not e_str:
                continue
            used = names_in(e_str, sp.subs)
            for c, vname in enumerate(allvars):
                if vname not in used:
                    continue
                res.count("completeness_pairs_checked")
                if (ecode, r, c) in listed:
                    continue
                # not listed: the derivative must vanish identically (checked at 3 points)
                for point in range(3):
                    vals = sp.draw_args(rng, sorted(eq_names), n, dae_t=[-1.0, 0.5, 0.0][point])
                    base = vals[vname]

                    def f(x, _e=e_str, _v=vname):
                        vv = dict(vals)
                        vv[_v] = x
                        return np.asarray(Evaluator(vv, sp.subs, n).eval(_e), dtype=float) * np.ones(n)
                    try:
                        D, smooth = rich_diff(f, base, 1e-5 * np.maximum(1.0, np.abs(base)))
                    except Unsupported:
                        break
                    fin = np.isfinite(D) & smooth
                    with np.errstate(all="ignore"):
                        noise = 1e-7 + 200 * 2.2e-16 * np.abs(f(base)) / (1e-5 * np.maximum(1.0, np.abs(base)))
                        # terms that cancel analytically leave round-off of the size of the largest term
                        big = 1e-9 * max(1.0, float(np.nanmax(np.abs(base)))) * 1e3
                    if np.any(fin & (np.abs(D) > noise + 1e-6 * term_scale(e_str, vals, sp, n))):
                        res.violate("jacobian_entry_missing", "%s: d(%s)/d(%s) is not in the Jacobian lists but the declared equation depends on "
                                    "it (difference quotient %r; %s)" % (sp.name, names_e[r], vname, float(D[fin][np.argmax(np.abs(D[fin]))]), str(e_str)[:120]),
                                    model=sp.name)
                        break
    res.sig = "model:" + sp.name
    res.nontrivial = nent >= 5
    res.sample = dict(model=sp.name, entries=nent, j_names=list(gen.j_names))


# ------------------------------------------------------------------------------------------------

def residual(ss, models, xy, n):
    """The real assembled residual with VarService values frozen."""
    dae = ss.dae
    dae.x[:] = xy[:n]
    dae.y[:] = xy[n:]
    ss.vars_to_models()
    dae.clear_fg()
    ss.l_update_var(models, niter=0, err=1.0)
    ss.f_update(models)
    ss.l_update_eq(models, niter=0)
    ss.g_update(models)
    ss.fg_to_dae()
    return np.concatenate([dae.f, dae.g]).copy()


def flags_snapshot(ss, models):
    out = []
    for m in models.values():
        if m.n == 0:
            continue
        for d in m.discrete.values():
            for v in d.get_values():
                out.append(np.array(v, dtype=float).ravel().copy())
    return np.concatenate(out) if out else np.zeros(0)


def check_assembled(res, ss, models, tag, rng, max_cols=None):
    from vf.au import dense
    dae = ss.dae
    n, m = dae.n, dae.m
    xy0 = np.concatenate([dae.x, dae.y]).copy()
    f0 = residual(ss, models, xy0, n)
    z0 = flags_snapshot(ss, models)
    ss.j_update(models)
    J = np.block([[dense(dae.fx) if n else np.zeros((0, n)), dense(dae.fy) if n else np.zeros((0, m))],
                  [dense(dae.gx) if n else np.zeros((m, 0)), dense(dae.gy)]])
    # exclusions with reasons
    excl_rows = np.zeros(n + m, dtype=bool)
    for mdl in models.values():
        if mdl.n == 0:
            continue
        numeric = bool(mdl.flags.f_num or mdl.flags.g_num or mdl.flags.j_num) or any(
            getattr(b.flags, k, False) for b in mdl.blocks.values() for k in ("f_num", "g_num", "j_num"))
        if numeric:
            for v in list(mdl.states.values()) + list(mdl.states_ext.values()):
                if len(np.atleast_1d(v.a)):
                    excl_rows[np.atleast_1d(v.a).astype(int)] = True
            for v in list(mdl.algebs.values()) + list(mdl.algebs_ext.values()):
                if len(np.atleast_1d(v.a)):
                    excl_rows[n + np.atleast_1d(v.a).astype(int)] = True
            res.count("rows_excluded_numeric_model")
    for item in ss.antiwindups:
        for key, _, _ in item.x_set:
            excl_rows[np.atleast_1d(key).astype(int)] = True
            res.count("rows_excluded_pegged", len(np.atleast_1d(key)))
        # rate limiters clip the derivative: those rows are not closed-form either
    for mdl in models.values():
        for d in mdl.discrete.values():
            if d.has_check_eq and mdl.n:
                st = getattr(d, "state", None) or getattr(d, "u", None)
                if st is not None and len(np.atleast_1d(st.a)) == mdl.n and st.e_code == "f":
                    zl = getattr(d, "zlr", None)
                    zu = getattr(d, "zur", None)
                    for z in (zl, zu):
                        if z is not None and np.size(z) == mdl.n and np.any(z):
                            excl_rows[np.atleast_1d(st.a).astype(int)[np.array(z, dtype=bool)]] = True
    if ss.Bus.n_islanded_buses:
        excl_rows[n + np.atleast_1d(ss.Bus.islanded_a).astype(int)] = True
        excl_rows[n + np.atleast_1d(ss.Bus.islanded_v).astype(int)] = True
    cols = np.arange(n + m)
    if max_cols and len(cols) > max_cols:
        cols = np.sort(rng.choice(cols, size=max_cols, replace=False))
    worst = 0.0
    for c in cols:
        h = 1e-5 * max(1.0, abs(xy0[c]))
        cols_ok = True
        evals = []
        for d in (h, -h, h / 2, -h / 2):
            xy = xy0.copy()
            xy[c] += d
            evals.append(residual(ss, models, xy, n))
            if not np.array_equal(flags_snapshot(ss, models), z0):
                cols_ok = False
                break
        if not cols_ok:
            res.count("columns_excluded_flag_flip")
            continue
        d1 = (evals[0] - evals[1]) / (2 * h)
        d2 = (evals[2] - evals[3]) / h
        D = (4 * d2 - d1) / 3
        smooth = np.abs(d1 - d2) <= 1e-4 * (1 + np.abs(D))
        # a kink exactly at the operating point (a state sitting on a breakpoint of a piecewise-linear characteristic) is
        # symmetric for central differences: one-sided slopes differ by an amount that does not shrink with h
        # (for a smooth function the difference is h f'' and halves with h)
        s1 = (evals[0] - 2 * f0 + evals[1]) / h
        s2 = (evals[2] - 2 * f0 + evals[3]) / (h / 2)
        with np.errstate(all="ignore"):
            kink = (np.abs(s1) > 1e-5 * (1 + np.abs(D))) & (np.abs(s2) > 0.75 * np.abs(s1))
        if np.any(kink & ~excl_rows):
            res.count("entries_excluded_kink_at_operating_point", int(np.sum(kink & ~excl_rows)))
        smooth = smooth & ~kink
        use = (~excl_rows) & smooth & np.isfinite(D)
        res.count("assembled_entries_compared", int(use.sum()))
        err = np.abs(J[:, c] - D)
        # round-off of the residual itself (equations with penalty constants like 1e8 (1 - z) cancel terms of that size):
        # measured, not assumed - the change of the residual under a move of a few ulp is noise, not slope
        # (measured against the finite-difference slope D itself, never against ANDES' Jacobian: a wrong Jacobian must not
        #  widen its own allowance; steps of h/64 and h/100 resolve a quantum q of the residual as deviations up to q)
        noise = np.zeros(n + m)
        for frac in (1.0 / 64, -1.0 / 100):
            xy = xy0.copy()
            xy[c] += frac * h
            with np.errstate(all="ignore"):
                dev = np.abs(residual(ss, models, xy, n) - f0 - frac * h * D)
            noise = np.maximum(noise, np.where(np.isfinite(dev), dev, 0.0))
        lim = 1e-6 * (1 + np.abs(D)) + 2e-8 + 8.0 * noise / h      # 2e-8: documented diag_eps constants
        if np.any(noise / h > 1e-6):
            res.count("entries_with_measured_roundoff_allowance", int(np.sum(noise / h > 1e-6)))
        if np.any(use & (err > lim)):
            r = int(np.where(use & (err > lim))[0][np.argmax((err / lim)[use & (err > lim)])])
            rn = (dae.x_name + dae.y_name)[r] if r < len(dae.x_name) + len(dae.y_name) else str(r)
            cn = (dae.x_name + dae.y_name)[c]
            res.violate("assembled_jacobian_wrong", "%s: d(eq of %s)/d(%s): j_update gives %r, finite difference of the assembled residual %r" % (
                tag, rn, cn, float(J[r, c]), float(D[r])), row=rn, col=cn)
            break
        worst = max(worst, float(np.max((err / lim)[use])) if use.any() else 0.0)
    res.maxobs("max_assembled_error_over_limit", worst)
    # restore
    residual(ss, models, xy0, n)


def check_pattern(res, ss, tag):
    """The four matrices as they stand occupy exactly the stored template's (I, J) positions."""
    dae = ss.dae
    res.count("pattern_updates_checked")
    for name in ("fx", "fy", "gx", "gy"):
        M, T = dae.__dict__[name], dae.tpl[name]
        if M.size != T.size:
            res.violate("pattern_size", "%s: %s has size %s, template %s" % (tag, name, M.size, T.size))
            continue
        pm = set(zip(list(M.I), list(M.J)))
        pt = set(zip(list(T.I), list(T.J)))
        if pm != pt:
            extra = sorted(pm - pt)
            nz = sum(1 for (i, j) in extra if M[int(i), int(j)] != 0)
            res.violate("pattern_changed", "%s: pattern of %s differs from the stored template (%d vs %d entries; %d outside the template, "
                        "%d of them non-zero; e.g. %s)" % (tag, name, len(pm), len(pt), len(extra), nz, sorted(pm ^ pt)[:3]), name=name)


def run_assembled(spec, res):
    import os
    from vf import au
    rng = rng_for(spec.get("seed", 0), PROPERTY, 5, abs(hash(spec["case"])) % 9973, spec["ipadd"])
    with au.Scratch("c03") as sd:
        rc = au.write_rc(os.path.join(sd, "a.rc"), {"System": dict(ipadd=spec["ipadd"]), "TDS": dict(no_tqdm=1, criteria=0), "PFlow": dict(report=0)})
        for rep in range(spec["reps"]):
            ss = au.load(spec["case"], setup=False, config_path=rc)
            off = []
            if rep > 0:
                # random devices switched off
                for mname in ("Line", "PQ"):
                    M = getattr(ss, mname)
                    if M.n > 4:
                        k = int(rng.integers(0, M.n))
                        M.u.v[k] = 0
                        off.append("%s %r" % (mname, M.idx.v[k]))
            ss.setup()
            tag = "%s ipadd=%d off=%s" % (spec["case"], spec["ipadd"], off)
            if not ss.PFlow.run():
                res.count("pf_failed")
                continue
            check_assembled(res, ss, ss.exist.pflow, tag + " [after PF]", rng)
            check_pattern(res, ss, tag + " [after PF]")
            ss.TDS.init()
            big = (ss.dae.n + ss.dae.m) > 500
            check_assembled(res, ss, ss.exist.pflow_tds, tag + " [after TDS.init]", rng, max_cols=64 if big else None)
            check_pattern(res, ss, tag + " [after TDS.init]")
            # every device of one model taken out of service after its Jacobian has been evaluated in service
            cand = [mn for mn, md in ss.exist.pflow_tds.items() if md.n > 0 and mn not in ("Bus", "Area", "Slack") and
                    (len(md.cache.all_vars) > 0) and hasattr(md, "u") and not md.flags.j_num]
            for mn in (list(rng.choice(cand, size=min(3, len(cand)), replace=False)) if cand else []):
                mn = str(mn)
                md = ss.__dict__[mn]
                u_orig = [float(x) for x in md.u.v]
                try:
                    for dev in list(md.idx.v):
                        md.alter("u", dev, 0)
                    res.count("whole_model_switched_off")
                    check_assembled(res, ss, ss.exist.pflow_tds, tag + " [after TDS.init, all %s off]" % mn, rng, max_cols=64 if big else 150)
                    check_pattern(res, ss, tag + " [all %s off]" % mn)
                finally:
                    for dev, uo in zip(list(md.idx.v), u_orig):
                        md.alter("u", dev, uo)
            # mid-simulation, after the case's own events
            ss.TDS.config.tf = float(rng.choice([0.3, 1.15, 2.05]))
            try:
                ss.TDS.run()
                check_assembled(res, ss, ss.exist.pflow_tds, tag + " [t=%.2f]" % float(ss.dae.t), rng, max_cols=64 if big else 150)
                check_pattern(res, ss, tag + " [t=%.2f]" % float(ss.dae.t))
            except Exception as e:
                res.note("simulation raised %r" % (e,))
    res.sig = "assembled:%s:%d" % (spec["case"], spec["ipadd"])
    res.nontrivial = res.obs.get("assembled_entries_compared", 0) >= 200
    res.sample = dict(case=spec["case"], ipadd=spec["ipadd"], entries=res.obs.get("assembled_entries_compared", 0),
                      flag_flip_columns=res.obs.get("columns_excluded_flag_flip", 0), worst=res.obs.get("max_assembled_error_over_limit"))


def run_pattern(spec, res):
    """The (I, J) pattern of fx, fy, gx, gy equals the stored template at every j_update of a live run."""
    import os
    from vf import au
    for ipadd in (1, 0):
        with au.Scratch("c03") as sd:
            rc = au.write_rc(os.path.join(sd, "a.rc"), {"System": dict(ipadd=ipadd), "TDS": dict(no_tqdm=1, tf=1.3, criteria=0), "PFlow": dict(report=0)})
            ss = au.load(spec["case"], config_path=rc)
            orig = ss.j_update
            state = dict(n=0)

            def wrapped(models, info=None, _orig=orig):
                r = _orig(models, info=info) if info is not None else _orig(models)
                dae = ss.dae
                state["n"] += 1
                res.count("pattern_updates_checked")
                for name in ("fx", "fy", "gx", "gy"):
                    M, T = dae.__dict__[name], dae.tpl[name]
                    if M.size != T.size:
                        res.violate("pattern_size", "%s ipadd=%d: %s has size %s, template %s" % (spec["case"], ipadd, name, M.size, T.size))
                        continue
                    pm = set(zip(list(M.I), list(M.J)))
                    pt = set(zip(list(T.I), list(T.J)))
                    if pm != pt:
                        res.violate("pattern_changed", "%s ipadd=%d update #%d at t=%.4f: pattern of %s differs from the template (%d vs %d entries, "
                                    "e.g. %s)" % (spec["case"], ipadd, state["n"], float(dae.t), name, len(pm), len(pt), sorted(pm ^ pt)[:3]), name=name)
                return r
            ss.j_update = wrapped
            if not ss.PFlow.run():
                res.count("pf_failed")
                continue
            try:
                ss.TDS.run()
            except Exception as e:
                res.note("run raised %r" % (e,))
            # the template must contain every structurally non-zero entry: compare with entries ever produced
    res.sig = "pattern:" + spec["case"]
    res.nontrivial = res.obs.get("pattern_updates_checked", 0) >= 5
    res.sample = dict(case=spec["case"], updates=res.obs.get("pattern_updates_checked", 0))


def run_case(spec):
    res = Result(spec)
    {"model": run_model, "assembled": run_assembled, "pattern": run_pattern}[spec["kind"]](spec, res)
    return res


def finding_key(w, spec):
    return w.get("mech")
