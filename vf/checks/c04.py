"""
C04 - Every accepted simulation step satisfies the implicit integration rule.

Monitor: vf.monitor.tds_trace.StepTrace on ``TDS.itm_step`` of live simulations (passive copies
before/after every attempted step); oracle: implicit-rule residual with a bound derived from the
Newton tolerance and the run's own Jacobian row sums; rejected steps must leave the state
bit-identical; step size / end-time clauses; order of convergence by step halving.
"""
import os

import numpy as np

from vf.util import Result, rng_for

PROPERTY = "C04"
LEVEL = "exploration"
TIMEOUT = 900
RULE = ("live simulations of stock dynamic cases (own disturbances + generated Toggle/Fault/Alter events) under "
        "method{trapezoid,backeuler} x fixt x g_scale x honest x tstep, plus cases engineered to force step rejection; "
        "every attempted step is observed. Non-trivial: >= 20 accepted steps checked; distinct = (case, configuration, "
        "event schedule). Order-of-convergence cases halve the step three times.")
ASSUMPTIONS = ["F_k := dae.f as held after accepted step k (f at the penultimate Newton iterate, the value the code itself "
               "uses as f0 of the next step); bound K*h*w*tol*rowsum(|fx|+|fy|), K=4",
               "states pegged by an anti-windup limiter (listed in antiwindups[*].x_set) are excluded, as the property says",
               "steps accepted by the chattering escape (tds.chatter) are counted and excluded"]
REQUIRED_OBS = {"accepted_steps": 500, "rejected_steps": 1, "order_tests": 1}

CASES = ["kundur/kundur_full.xlsx", "ieee14/ieee14_fault.xlsx", "kundur/kundur_aw.xlsx", "wecc/wecc_gencls.xlsx",
         "ieee14/ieee14_wt3.xlsx", "5bus/pjm5bus.xlsx", "smib/SMIB.xlsx", "ieee14/ieee14_linetrip.xlsx",
         "kundur/kundur_ieeest.xlsx", "ieee14/ieee14_esst3a.xlsx", "ieee14/ieee14_pvd1.xlsx", "kundur/kundur_sexs.xlsx",
         "ieee39/ieee39_full.xlsx", "ieee14/ieee14_solar.xlsx", "kundur/kundur_motor.xlsx", "ieee14/ieee14_hygov.xlsx",
         "npcc/npcc.xlsx", "kundur/kundur_vsc.xlsx", "ieee14/ieee14_gast.xlsx", "kundur/kundur_wtdta1.xlsx"]


def cases(tier, seed):
    out = []
    rng = rng_for(seed, PROPERTY, 0)
    n = 36 if tier == "quick" else 400
    for i in range(n):
        case = CASES[i % (10 if tier == "quick" else len(CASES))]
        cfg = dict(method=["trapezoid", "backeuler"][int(rng.integers(0, 2))], fixt=int(rng.integers(0, 2)),
                   g_scale=int(rng.integers(0, 2)), honest=int(rng.integers(0, 2)),
                   tstep=[1 / 30, 1 / 60, 0.01, 0.05][int(rng.integers(0, 4))])
        out.append(dict(id="run%03d:%s" % (i, case), kind="run", case=case, cfg=cfg, index=i, tf=float(rng.choice([1.5, 2.5, 3.0])),
                        extra_events=int(rng.integers(0, 3)), twin=(i % 6 == 0)))
    m = 6 if tier == "quick" else 40
    for i in range(m):
        out.append(dict(id="reject%02d" % i, kind="reject", index=i))
    o = [("kundur/kundur_full.xlsx", "trapezoid"), ("kundur/kundur_full.xlsx", "backeuler")]
    if tier == "thorough":
        o += [("wecc/wecc_gencls.xlsx", "trapezoid"), ("ieee14/ieee14_linetrip.xlsx", "trapezoid"),
              ("kundur/kundur_sexs.xlsx", "backeuler"), ("5bus/pjm5bus.xlsx", "trapezoid")]
    for case, method in o:
        out.append(dict(id="order:%s:%s" % (case, method), kind="order", case=case, method=method))
    return out


def worker_init():
    from vf import au
    au.quiet()


def make_rc(sd, name, cfg, tf, tol=None, extra=None):
    from vf import au
    t = dict(method=cfg["method"], fixt=cfg["fixt"], g_scale=cfg["g_scale"], honest=cfg["honest"], tstep=repr(float(cfg["tstep"])),
             tf=repr(float(tf)), no_tqdm=1, store_f=1)
    if tol is not None:
        t["tol"] = repr(tol)
    if extra:
        t.update(extra)
    return au.write_rc(os.path.join(sd, name + ".rc"), {"TDS": t, "PFlow": {"report": 0}})


def add_events(ss, rng, n, tf):
    """Generated disturbances on top of the case's own: line toggles (off and back on) and load alters."""
    ev = []
    for j in range(n):
        kind = int(rng.integers(0, 2))
        t = float(np.round(rng.uniform(0.1, tf * 0.8), 4))
        if kind == 0 and ss.Line.n > 2:
            li = ss.Line.idx.v[int(rng.integers(0, ss.Line.n))]
            ss.add("Toggle", dict(model="Line", dev=li, t=t))
            ss.add("Toggle", dict(model="Line", dev=li, t=float(np.round(t + rng.uniform(0.05, 0.2), 4))))
            ev.append(("toggle", li, t))
        elif ss.PQ.n > 0:
            pi = ss.PQ.idx.v[int(rng.integers(0, ss.PQ.n))]
            ss.add("Alter", dict(t=t, model="PQ", dev=pi, src="Ppf", attr="v", method="*", amount=float(rng.uniform(0.9, 1.1))))
            ev.append(("alter", pi, t))
    return ev


def simulate(case, rc, events_rng=None, n_events=0, tf=2.0, trace=True, pre=None):
    from vf import au
    from vf.monitor.tds_trace import StepTrace
    ss = au.load(case, setup=False, config_path=rc)
    ev = add_events(ss, events_rng, n_events, tf) if n_events else []
    if pre:
        pre(ss)
    ss.setup()
    if not ss.PFlow.run():
        return ss, None, False, ev
    tr = StepTrace(ss) if trace else None
    ok = ss.TDS.run()
    return ss, tr, ok, ev


def global_clauses(res, ss, tr, ok, cfg, tf, tag):
    tds = ss.TDS
    t = np.array(ss.dae.ts.t)
    if len(t) > 1 and not np.all(np.diff(t) > 0):
        res.violate("time_not_increasing", "%s: stored time stamps are not strictly increasing" % tag)
    if ok:
        res.count("runs_succeeded")
        if float(ss.dae.t) != float(tf):
            res.violate("end_time", "%s: run() returned True but dae.t=%r != tf=%r" % (tag, float(ss.dae.t), tf))
        if len(t) and t[-1] != tf:
            res.violate("end_time", "%s: last stored stamp %r != tf %r" % (tag, float(t[-1]), tf))
    else:
        res.count("runs_not_completed")
    acc = tr.accepted()
    for s in acc:
        if s["t"] > tf * (1 + 1e-15):
            res.violate("past_end_time", "%s: accepted step ends at t=%r beyond tf=%r" % (tag, s["t"], tf))
            break
    if cfg["fixt"]:
        hmax = max((s["h"] for s in acc), default=0.0)
        res.maxobs("max_h_over_tstep", hmax / cfg["tstep"])
        if hmax > cfg["tstep"] * (1 + 2 ** -40):
            res.violate("step_exceeds_fixed", "%s: fixt=1 but an accepted step used h=%r > tstep=%r" % (tag, hmax, cfg["tstep"]))
    # store_f=1: the stored f row of accepted step k equals what the solver held
    if hasattr(ss.dae.ts, "f") and ss.dae.ts.f is not None and len(np.atleast_1d(ss.dae.ts.f)) == len(acc) and len(acc):
        F = np.array(ss.dae.ts.f)
        if F.shape[0] == len(acc) and F.shape[1] == len(acc[0]["f"]):
            k = len(acc) // 2
            res.count("stored_f_rows_compared")
            if not np.array_equal(F[k], acc[k]["f"]):
                res.violate("stored_f_differs", "%s: ts.f row %d differs from the f held after that step" % (tag, k))


def run_run(spec, res):
    from vf import au
    from vf.monitor.tds_trace import check_step_rule
    cfg = spec["cfg"]
    rng = rng_for(spec.get("seed", 0), PROPERTY, 1, spec["index"])
    tf = spec["tf"]
    with au.Scratch("c04") as sd:
        rc = make_rc(sd, "a", cfg, tf)
        ss, tr, ok, ev = simulate(spec["case"], rc, rng, spec["extra_events"], tf)
        tag = "%s %s" % (spec["case"], cfg)
        if tr is None:
            res.inconc("power flow failed")
            return
        tol = float(ss.TDS.config.tol)
        check_step_rule(res, tr, cfg["method"], tol, tag=tag)
        global_clauses(res, ss, tr, ok, cfg, tf, tag)
        res.sig = "%s|%s|%s" % (spec["case"], sorted(cfg.items()), ev)
        res.nontrivial = res.obs.get("accepted_steps", 0) >= 20
        res.sample = dict(case=spec["case"], cfg=cfg, tf=tf, events=ev, accepted=res.obs.get("accepted_steps", 0),
                          rejected=res.obs.get("rejected_steps", 0), completed=bool(ok),
                          max_ratio_f=res.obs.get("max_ratio_differential"), max_ratio_g=res.obs.get("max_ratio_algebraic"))
        if spec.get("twin"):
            # the monitor must not perturb the run: a bare run gives bit-identical stored series
            rng2 = rng_for(spec.get("seed", 0), PROPERTY, 1, spec["index"])
            ss2, _, ok2, _ = simulate(spec["case"], rc, rng2, spec["extra_events"], tf, trace=False)
            res.count("twin_runs")
            same = (ok == ok2 and np.array_equal(ss.dae.ts.t, ss2.dae.ts.t) and np.array_equal(ss.dae.ts.x, ss2.dae.ts.x)
                    and np.array_equal(ss.dae.ts.y, ss2.dae.ts.y))
            if not same:
                res.inconc("monitored and bare runs differ: the monitor perturbs the run (harness defect)")


def run_reject(spec, res):
    """Engineered to make Newton fail with the nominal step so that steps are rejected and shrunk."""
    from vf import au
    from vf.monitor.tds_trace import check_step_rule
    rng = rng_for(spec.get("seed", 0), PROPERTY, 2, spec["index"])
    case = ["kundur/kundur_full.xlsx", "ieee14/ieee14_fault.xlsx", "kundur/kundur_aw.xlsx", "ieee39/ieee39_full.xlsx"][spec["index"] % 4]
    cfg = dict(method=["trapezoid", "backeuler"][int(rng.integers(0, 2))], fixt=1, g_scale=int(rng.integers(0, 2)), honest=0,
               tstep=float(rng.choice([0.1, 0.2, 0.3])))
    tf = 2.0

    def pre(ss):
        bus = ss.Bus.idx.v[int(rng.integers(0, ss.Bus.n))]
        ss.add("Fault", dict(bus=bus, tf=0.3, tc=float(rng.choice([0.5, 0.7])), xf=float(rng.choice([1e-4, 0.01])), rf=0.0))
    with au.Scratch("c04") as sd:
        rc = make_rc(sd, "r", cfg, tf, extra=dict(max_iter=int(rng.choice([10, 12])), criteria=0))
        ss, tr, ok, ev = simulate(case, rc, None, 0, tf, pre=pre)
        if tr is None:
            res.inconc("power flow failed")
            return
        tag = "reject %s %s" % (case, cfg)
        check_step_rule(res, tr, cfg["method"], float(ss.TDS.config.tol), tag=tag)
        global_clauses(res, ss, tr, ok, cfg, tf, tag)
        res.sig = "reject|%s|%s" % (case, sorted(cfg.items()))
        res.nontrivial = res.obs.get("rejected_steps", 0) > 0
        res.sample = dict(case=case, cfg=cfg, accepted=res.obs.get("accepted_steps", 0), rejected=res.obs.get("rejected_steps", 0),
                          completed=bool(ok), busted=bool(ss.TDS.busted))


def run_order(spec, res):
    from vf import au
    method = spec["method"]
    tf = 3.0
    # backward Euler is first order: its asymptotic range starts at smaller steps
    hs = [1 / 30, 1 / 60, 1 / 120, 1 / 240] if method == "trapezoid" else [1 / 120, 1 / 240, 1 / 480, 1 / 960]
    finals = []
    with au.Scratch("c04") as sd:
        for k, h in enumerate(hs):
            cfg = dict(method=method, fixt=1, g_scale=1, honest=0, tstep=h)
            rc = make_rc(sd, "o%d" % k, cfg, tf, tol=1e-9, extra=dict(max_iter=30))

            def pre(ss):
                ss.PFlow.config.tol = 1e-12
            ss, tr, ok, _ = simulate(spec["case"], rc, None, 0, tf, trace=False, pre=pre)
            if not ok:
                res.inconc("order benchmark did not complete at h=%g" % h)
                return
            t = np.array(ss.dae.ts.t)
            pts = [tf] + [float(s) for s in ss.switch_times if abs(s - round(s, 3)) < 1e-12 and s < tf]
            rows = []
            for p in pts:
                w = np.where(t == p)[0]
                if len(w) == 0:
                    res.inconc("time %r not on the axis at h=%g" % (p, h))
                    return
                rows.append(np.array(ss.dae.ts.x)[w[-1]])
            finals.append(np.array(rows))
    d = [float(np.max(np.abs(finals[i] - finals[i + 1]))) for i in range(3)]
    orders = [float(np.log2(d[i] / d[i + 1])) for i in range(2)] if min(d) > 0 else [float("nan")] * 2
    lo, hi = (1.7, 2.3) if method == "trapezoid" else (0.8, 1.25)
    res.count("order_tests")
    res.sig = "order|%s|%s" % (spec["case"], method)
    res.nontrivial = True
    res.sample = dict(case=spec["case"], method=method, successive_differences=d, observed_orders=orders)
    # "shrinks at the method's order": no pair may fall short of it; the coarsest pair may still be pre-asymptotic (fast
    # transients under-resolved at 1/30 s converge faster at first), the finest pair has to have settled near the order
    if not (all(o >= lo for o in orders) and orders[-1] <= hi + 0.3):
        res.violate("order_of_convergence", "%s %s: successive differences %s give orders %s; every pair must reach %.2f and the finest stay below %.2f + 0.3" % (
            spec["case"], method, ["%.3e" % x for x in d], ["%.2f" % o for o in orders], lo, hi), orders=orders)


def run_case(spec):
    res = Result(spec)
    {"run": run_run, "reject": run_reject, "order": run_order}[spec["kind"]](spec, res)
    return res


def finding_key(w, spec):
    return w.get("mech")
