"""
C18 - Control blocks realise their documented transfer functions from steady state.

For every block class a throw-away model holding the block is built exactly as
andes/models/experimental/testmodel.py does; the REAL ``define()`` and the REAL SymProcessor
(generate_symbols / equations / init) produce callables, which are evaluated at random parameter
tuples.  With flags frozen inside the limits the equations are affine in (x, y, u); the monitor
extracts (T, A, B, C, D) by differencing the callables and asserts
C (sT - A)^-1 B + D == H_documented(s) at random complex s (a rational identity of degree <= 2 that
holds at more than 5 random points holds identically with probability 1), for every documented
zero-time-constant bypass combination; steady state: with constant input the declared initial
values make every equation vanish.  The thorough tier also simulates a model holding the block with
the real TDS against scipy.signal.lsim.
"""
import numpy as np

from vf.util import Result, rng_for

PROPERTY = "C18"
LEVEL = "exploration"
TIMEOUT = 900
RULE = ("per block class (Gain, Integrator(+AW), Lag(+AW/Freeze/Rate/AWRate/AWFreeze), Washout, WashoutOrLag, Lag2ndOrd, LeadLag, "
        "LeadLag2ndOrd, LeadLagLimit, PI/PID and their AW/tracking/freeze variants, GainLimiter, HVGate, LVGate): batches of 8 "
        "random admissible parameter tuples incl. every documented zero bypass, 8 random complex frequencies each. Non-trivial: "
        ">= 8 tuples compared; distinct = (block, bypass pattern, batch seed).")
ASSUMPTIONS = ["documented transfer functions are transcribed from the class docstrings / diagrams (table BLOCKS below)",
               "admissible tuples: denominators' leading time constants positive unless the docstring documents the bypass",
               "LagFreeze / LagAWFreeze / LagRate: their define() docstrings state T y' = (K u - y), i.e. the argument D is documented as unused "
               "(the class diagram of LagRate still shows D + sT); the define() text is taken as the documentation",
               "limited variants are evaluated with their limiter flags frozen at 'inside limits' (zi=1) and freeze inputs at 0"]
REQUIRED_OBS = {"tuples_compared": 500, "blocks_checked": 20, "steady_state_checks": 400, "bypass_tuples": 50}


def cases(tier, seed):
    out = []
    reps = 4 if tier == "quick" else 60
    for b in BLOCKS:
        for r in range(reps):
            out.append(dict(id="%s:%d" % (b, r), kind="tf", block=b, index=r))
    for i, c in enumerate(INMODEL_CASES if tier != "quick" else INMODEL_CASES[:6]):
        for r in range(4 if tier == "quick" else 16):
            out.append(dict(id="inmodel:%s:%d" % (c, r), kind="inmodel", case=c, index=r))
    if tier == "thorough-lsim":       # reserved: time-domain comparison against scipy.signal.lsim
        for b in ("Lag", "LeadLag", "Washout", "PIController", "Lag2ndOrd", "LeadLag2ndOrd", "Integrator", "PIDController"):
            out.append(dict(id="lsim:" + b, kind="lsim", block=b))
    return out


def worker_init():
    from vf import au
    au.quiet()


# ------------------------------------------------------------------------------------------------
# table: name -> (constructor kwargs using parameter names, parameter list, documented H(s, p), sampler options)
# "p" is a dict of arrays.  "zero" lists the parameter subsets that the documentation allows to be zero together.

def _tf_leadlag(s, p):
    both0 = (p["T1"] == 0) & (p["T2"] == 0)
    with np.errstate(all="ignore"):
        h = p["K"] * (1 + s * p["T1"]) / (1 + s * p["T2"])
    return np.where(both0, p["K"], h)


def _tf_ll2(s, p):
    return (1 + s * p["T3"] + s * s * p["T4"]) / (1 + s * p["T1"] + s * s * p["T2"])


def _tf_wol(s, p):
    return np.where(p["K"] > 0, s * p["K"] / (1 + s * p["T"]), 1.0 / (1 + s * p["T"]))


def _pid(s, p):
    return p["kp"] + p["ki"] / s + s * p["kd"] / (1 + s * p["Td"])


BLOCKS = {
    "Gain": dict(args=dict(K="K"), params=["K"], tf=lambda s, p: p["K"] + 0 * s),
    "Integrator": dict(args=dict(T="T", K="K", y0="y0"), params=["T", "K", "y0"], pos=["T"], tf=lambda s, p: p["K"] / (s * p["T"]), dc=False),
    "IntegratorAntiWindup": dict(args=dict(T="T", K="K", y0="y0", lower="lo", upper="up"), params=["T", "K", "y0", "lo", "up"], pos=["T"],
                                 tf=lambda s, p: p["K"] / (s * p["T"]), dc=False, limits=("lo", "up")),
    "Lag": dict(args=dict(T="T", K="K", D="D"), params=["T", "K", "D"], pos=["T", "D"], tf=lambda s, p: p["K"] / (p["D"] + s * p["T"])),
    "LagFreeze": dict(args=dict(T="T", K="K", D="D", freeze="fz"), params=["T", "K", "D", "fz"], pos=["T", "D"], zeros_always=["fz"],
                      tf=lambda s, p: p["K"] / (1 + s * p["T"])),
    "LagAntiWindup": dict(args=dict(T="T", K="K", D="D", lower="lo", upper="up"), params=["T", "K", "D", "lo", "up"], pos=["T", "D"],
                          tf=lambda s, p: p["K"] / (p["D"] + s * p["T"]), limits=("lo", "up")),
    "LagAWFreeze": dict(args=dict(T="T", K="K", D="D", lower="lo", upper="up", freeze="fz"), params=["T", "K", "D", "lo", "up", "fz"],
                        pos=["T", "D"], zeros_always=["fz"], tf=lambda s, p: p["K"] / (p["D"] + s * p["T"]), limits=("lo", "up")),
    "LagRate": dict(args=dict(T="T", K="K", D="D", rate_lower="rl", rate_upper="ru"), params=["T", "K", "D", "rl", "ru"], pos=["T", "D"],
                    tf=lambda s, p: p["K"] / (1 + s * p["T"]), limits=("rl", "ru")),
    "LagAntiWindupRate": dict(args=dict(T="T", K="K", D="D", lower="lo", upper="up", rate_lower="rl", rate_upper="ru"),
                              params=["T", "K", "D", "lo", "up", "rl", "ru"], pos=["T", "D"], tf=lambda s, p: p["K"] / (p["D"] + s * p["T"]),
                              limits=("lo", "up")),
    "Washout": dict(args=dict(T="T", K="K"), params=["T", "K"], pos=["T"], tf=lambda s, p: s * p["K"] / (1 + s * p["T"])),
    "WashoutOrLag": dict(args=dict(T="T", K="K", zero_out=True), params=["T", "K"], pos=["T"], named=True, zero=[["K"]], nonneg=["K"], tf=_tf_wol),
    "Lag2ndOrd": dict(args=dict(K="K", T1="T1", T2="T2"), params=["K", "T1", "T2"], pos=["T2"], nonneg=["T1"],
                      tf=lambda s, p: p["K"] / (1 + s * p["T1"] + s * s * p["T2"])),
    "LeadLag": dict(args=dict(T1="T1", T2="T2", K="K", zero_out=True), params=["T1", "T2", "K"], pos=["T2"], nonneg=["T1"],
                    zero=[["T1", "T2"], ["T1"]], tf=_tf_leadlag),
    "LeadLag2ndOrd": dict(args=dict(T1="T1", T2="T2", T3="T3", T4="T4", zero_out=True), params=["T1", "T2", "T3", "T4"], pos=["T2"],
                          nonneg=["T1", "T3", "T4"], zero=[["T1", "T2", "T3", "T4"], ["T3"], ["T4"], ["T1"], ["T3", "T4"], ["T1", "T3"]], tf=_tf_ll2),
    "LeadLagLimit": dict(args=dict(T1="T1", T2="T2", lower="lo", upper="up"), params=["T1", "T2", "lo", "up"], pos=["T2"], nonneg=["T1"],
                         zero=[["T1"]], tf=lambda s, p: (1 + s * p["T1"]) / (1 + s * p["T2"]), limits=("lo", "up")),
    "PIController": dict(args=dict(kp="kp", ki="ki"), params=["kp", "ki"], tf=lambda s, p: p["kp"] + p["ki"] / s, dc=False),
    "PIFreeze": dict(args=dict(kp="kp", ki="ki", freeze="fz"), params=["kp", "ki", "fz"], zeros_always=["fz"], tf=lambda s, p: p["kp"] + p["ki"] / s, dc=False),
    "PIAWHardLimit": dict(args=dict(kp="kp", ki="ki", aw_lower="alo", aw_upper="aup", lower="lo", upper="up"),
                          params=["kp", "ki", "alo", "aup", "lo", "up"], tf=lambda s, p: p["kp"] + p["ki"] / s, dc=False, limits=("lo", "up")),
    "PITrackAW": dict(args=dict(kp="kp", ki="ki", ks="ks", lower="lo", upper="up"), params=["kp", "ki", "ks", "lo", "up"],
                      tf=lambda s, p: p["kp"] + p["ki"] / s, dc=False, limits=("lo", "up")),
    "PIDController": dict(args=dict(kp="kp", ki="ki", kd="kd", Td="Td"), params=["kp", "ki", "kd", "Td"], pos=["Td", "kd"], named=True, tf=_pid, dc=False),
    "PIDAWHardLimit": dict(args=dict(kp="kp", ki="ki", kd="kd", Td="Td", aw_lower="alo", aw_upper="aup", lower="lo", upper="up"),
                           params=["kp", "ki", "kd", "Td", "alo", "aup", "lo", "up"], pos=["Td", "kd"], named=True, tf=_pid, dc=False, limits=("lo", "up")),
    "PIDTrackAW": dict(args=dict(kp="kp", ki="ki", kd="kd", Td="Td", ks="ks", lower="lo", upper="up"),
                       params=["kp", "ki", "kd", "Td", "ks", "lo", "up"], pos=["Td", "kd"], named=True, tf=_pid, dc=False, limits=("lo", "up")),
    "GainLimiter": dict(args=dict(K="K", R="R", lower="lo", upper="up"), params=["K", "R", "lo", "up"], tf=lambda s, p: p["K"] * p["R"] + 0 * s, limits=("lo", "up")),
}


def build_model(block_name):
    """A throw-away Model subclass holding one block; created outside any system (as ANDES' own code generation does)."""
    from andes.core import Algeb, Model, ModelData, NumParam
    from andes.core import block as B
    spec = BLOCKS[block_name]

    class Holder(ModelData, Model):
        def __init__(self, system=None, config=None):
            ModelData.__init__(self)
            for pn in spec["params"]:
                setattr(self, pn, NumParam(default=1.0, tex_name=pn))
            self.ucmd = NumParam(default=0.0, tex_name="ucmd")
            Model.__init__(self, system, config)
            self.group = "Experimental"
            self.flags.tds = True
            self.uin = Algeb(v_str="ucmd", e_str="ucmd - uin", tex_name="uin")
            kw = {}
            for k, v in spec["args"].items():
                kw[k] = getattr(self, v) if isinstance(v, str) else v
            cls = getattr(B, block_name)
            if spec.get("named"):
                kw["name"] = "BLK"
            self.BLK = cls(u=self.uin, **kw)
    Holder.__name__ = "Hold" + block_name
    m = Holder(system=None, config=None)
    m.syms.generate_symbols()
    m.syms.generate_subs_expr()
    m.syms.generate_equations()
    m.syms.generate_services()
    m.syms.generate_jacobians()
    m.syms.generate_init()
    return m


def draw_params(rng, spec, n, zero_sets):
    p = {}
    for pn in spec["params"]:
        if pn in ("lo", "alo", "rl"):
            p[pn] = np.full(n, -1e6)
        elif pn in ("up", "aup", "ru"):
            p[pn] = np.full(n, 1e6)
        elif pn in spec.get("zeros_always", []):
            p[pn] = np.zeros(n)
        elif pn in spec.get("pos", []) or pn in spec.get("nonneg", []):
            p[pn] = rng.uniform(0.05, 5.0, n) * rng.choice([1.0, 1.0, 0.01, 20.0], n)
        elif pn == "y0":
            p[pn] = rng.uniform(-1, 1, n)
        else:
            p[pn] = rng.uniform(0.1, 3.0, n) * rng.choice([-1.0, 1.0, 1.0], n)
    # documented bypass patterns on some devices
    nz = 0
    for j in range(n):
        if zero_sets and rng.random() < 0.5:
            zs = zero_sets[int(rng.integers(0, len(zero_sets)))]
            for pn in zs:
                p[pn][j] = 0.0
            nz += 1
    return p, nz


def set_flags(m, vals, n, spec):
    """Discrete flags: parameter-driven ones from the REAL components, limiter flags frozen inside the limits."""
    from andes.core import discrete as D
    for dn, d in m.discrete.items():
        d.list2array(n)
        if isinstance(d, (D.LessThan, D.IsEqual, D.Switcher)) and hasattr(d.u, "v") and getattr(d.u, "name", None) in vals:
            d.u.v = vals[d.u.name]
            if hasattr(d, "bound") and not hasattr(d.bound, "v"):
                pass
            d._eval = False
            d.check_var()
            for nm, v in zip(d.get_names(), d.get_values()):
                vals[nm] = np.array(v, dtype=float) * np.ones(n)
        else:
            for nm in d.get_names():
                short = nm[len(dn) + 1:]
                vals[nm] = np.ones(n) if short == "zi" else np.zeros(n)


def run_tf(spec_case, res):
    name = spec_case["block"]
    spec = BLOCKS[name]
    rng = rng_for(spec_case.get("seed", 0), PROPERTY, list(BLOCKS).index(name), spec_case["index"])
    try:
        m = build_model(name)
    except Exception as e:
        res.violate("block_define_raises", "%s: building a model with the block raised %r" % (name, e))
        return
    res.count("blocks_checked")
    n = 8
    p, nz = draw_params(rng, spec, n, spec.get("zero", []))
    res.count("bypass_tuples", nz)
    states = list(m.cache.states_and_ext.keys())
    algebs = list(m.cache.algebs_and_ext.keys())
    vals = dict(p)
    for pn in spec["params"]:
        getattr(m, pn).v = p[pn]
    vals["ucmd"] = rng.uniform(-1, 1, n)
    vals["dae_t"] = np.array(0.5)
    set_flags(m, vals, n, spec)
    # services of the holder (none) and of the block
    for sname in m.services:
        fn = m.calls.s.get(sname)
        if callable(fn):
            vals[sname] = np.asarray(fn(*[vals[a] for a in m.calls.s_args[sname]]), dtype=float) * np.ones(n)
    z0 = {v: rng.uniform(-1, 1, n) for v in states + algebs}

    def fg(z, u):
        vv = dict(vals)
        vv.update(z)
        vv["ucmd"] = u
        for extra in ("__zeros", "__ones", "__falses", "__trues"):
            vv[extra] = {"__zeros": np.zeros(n), "__ones": np.ones(n), "__falses": np.full(n, False), "__trues": np.full(n, True)}[extra]
        f = m.calls.f(*[vv[a] for a in m.calls.f_args]) if callable(m.calls.f) else [0.0] * len(states)
        g = m.calls.g(*[vv[a] for a in m.calls.g_args]) if callable(m.calls.g) else [0.0] * len(algebs)
        F = np.array([np.asarray(x, dtype=float) * np.ones(n) for x in f]).reshape(len(states), n)
        G = np.array([np.asarray(x, dtype=float) * np.ones(n) for x in g]).reshape(len(algebs), n)
        return F, G
    with np.errstate(all="ignore"):
        F0, G0 = fg(z0, vals["ucmd"])
        nx, ny = len(states), len(algebs)
        A = np.zeros((n, nx + ny, nx + ny))
        Bm = np.zeros((n, nx + ny))
        for k, vn in enumerate(states + algebs):
            z1 = dict(z0)
            z1[vn] = z0[vn] + 1.0
            F1, G1 = fg(z1, vals["ucmd"])
            A[:, :nx, k] = (F1 - F0).T
            A[:, nx:, k] = (G1 - G0).T
            # affinity: a second step must give the same difference
            z2 = dict(z0)
            z2[vn] = z0[vn] - 2.0
            F2, G2 = fg(z2, vals["ucmd"])
            if not (np.allclose((F0 - F2) / 2, F1 - F0, rtol=1e-8, atol=1e-9) and np.allclose((G0 - G2) / 2, G1 - G0, rtol=1e-8, atol=1e-9)):
                res.inconc("%s: equations are not affine in %s with frozen flags" % (name, vn))
                return
        F1, G1 = fg(z0, vals["ucmd"] + 1.0)
        Bm[:, :nx] = (F1 - F0).T
        Bm[:, nx:] = (G1 - G0).T
    # time constants
    T = np.ones((n, nx))
    for k, vn in enumerate(states):
        tc = m.cache.states_and_ext[vn].t_const
        if tc is not None:
            tv = getattr(tc, "v", tc)
            T[:, k] = np.asarray(vals.get(getattr(tc, "name", None), tv), dtype=float) * np.ones(n)
    out_name = "BLK_y"
    allv = states + algebs
    if out_name not in allv:
        res.inconc("%s exports no output named y" % name)
        return
    oi = allv.index(out_name)
    worst = 0.0
    for j in range(n):
        pj = {k: np.array(v[j]) for k, v in p.items()}
        for q in range(8):
            s = complex(rng.uniform(-2, 2), rng.uniform(-6, 6))
            if abs(s) < 0.2:
                s += 0.5
            M = -A[j].astype(complex)
            M[:nx, :nx] += s * np.diag(T[j])
            try:
                sol = np.linalg.solve(M, Bm[j].astype(complex))
            except np.linalg.LinAlgError:
                res.violate("block_singular", "%s with %s: the block equations are singular at s=%s" % (name, {k: float(v) for k, v in pj.items()}, s),
                            block=name)
                break
            H = sol[oi]
            with np.errstate(all="ignore"):
                Hd = complex(np.asarray(spec["tf"](s, pj)).reshape(-1)[0])
            err = abs(H - Hd) / (1 + abs(Hd))
            worst = max(worst, err)
            if not np.isfinite(err) or err > 1e-8:
                zeros = sorted(k for k, v in pj.items() if float(v) == 0.0)
                res.violate("transfer_function", "%s with %s: equations realise H(%s) = %s, documented transfer function gives %s" % (
                    name, {k: round(float(v), 5) for k, v in pj.items() if k not in ("lo", "up", "alo", "aup", "rl", "ru")}, np.round(s, 3), np.round(H, 6),
                    np.round(Hd, 6)), block=name, zeros=zeros)
                break
        res.count("tuples_compared")
    res.maxobs("max_tf_error", worst)
    # ---- steady state: declared initial values balance every equation for a constant input
    init = dict(vals)
    for extra, val in (("__zeros", np.zeros(n)), ("__ones", np.ones(n)), ("__falses", np.full(n, False)), ("__trues", np.full(n, True))):
        init[extra] = val
    ok_init = True
    for item in m.calls.init_seq:
        names = item if isinstance(item, list) else [item]
        for vn in names:
            if vn in m.calls.ia:
                try:
                    with np.errstate(all="ignore"):
                        init[vn] = np.asarray(m.calls.ia[vn](*[init[a] for a in m.calls.ia_args[vn]]), dtype=float) * np.ones(n)
                except KeyError:
                    ok_init = False
            elif vn in allv and vn not in init:
                init[vn] = np.zeros(n)
    if ok_init and spec.get("dc", True):
        zi = {v: init.get(v, np.zeros(n)) for v in allv}
        with np.errstate(all="ignore"):
            Fi, Gi = fg(zi, vals["ucmd"])
        resid = np.max(np.abs(np.concatenate([Fi, Gi], axis=0)), axis=0)
        scale = 1 + np.max(np.abs(np.array([zi[v] for v in allv])), axis=0)
        res.count("steady_state_checks", n)
        bad = np.where(~(resid <= 1e-9 * scale))[0]
        if len(bad):
            j = int(bad[0])
            k = int(np.argmax(np.abs(np.concatenate([Fi, Gi], axis=0))[:, j]))
            res.violate("steady_state", "%s with %s and constant input %.4f: the declared initial values leave equation of %s at %.3e" % (
                name, {kk: round(float(v[j]), 5) for kk, v in p.items() if kk not in ("lo", "up", "alo", "aup", "rl", "ru")}, float(vals["ucmd"][j]),
                allv[k], float(np.concatenate([Fi, Gi], axis=0)[k, j])), block=name, var=allv[k])
    res.sig = "%s:%d" % (name, spec_case["index"])
    res.nontrivial = res.obs.get("tuples_compared", 0) >= 8
    res.sample = dict(block=name, states=states, algebs=algebs, bypass_tuples=nz, max_tf_error=worst)


def run_lsim(spec_case, res):
    """Thorough tier: one model holding the block, simulated by the real TDS, against scipy.signal.lsim."""
    res.inconc("lsim comparison not implemented in this round")


INMODEL_CASES = ["kundur/kundur_ieeest.xlsx", "kundur/kundur_full.xlsx", "ieee14/ieee14_full.xlsx", "kundur/kundur_st2cut.xlsx",
                 "kundur/kundur_ieeeg1.xlsx", "ieee14/ieee14_esst3a.xlsx", "ieee39/ieee39_full.xlsx", "kundur/kundur_sexs.xlsx",
                 "ieee14/ieee14_exac1.xlsx", "wecc/wecc_full.xlsx", "ieee14/ieee14_esst4b.xlsx", "ieee14/ieee14_hygov.xlsx"]


def run_inmodel(spec, res):
    """Blocks inside the shipped models, initialised by the real TDS.init() (real evaluation order of flags, services and
    initial values) with documented zero-time-constant bypasses switched on for random devices: the equations of every block
    must vanish at the initial point (the block starts from steady state), unless one of its own limiters is engaged."""
    from vf import au
    from andes.core.param import NumParam
    rng = rng_for(spec.get("seed", 0), PROPERTY, 3, abs(hash(spec["case"])) % 9973, spec["index"])
    ss = au.load(spec["case"], setup=False)
    changed = []
    for mname, m in ss.models.items():
        if m.n == 0 or not m.flags.tds:
            continue
        for bname, blk in m.blocks.items():
            bs = BLOCKS.get(type(blk).__name__)
            if not bs or "zero" not in bs or spec["index"] == 0:
                continue
            if rng.random() < 0.5:
                zs = bs["zero"][int(rng.integers(0, len(bs["zero"])))]
                k = int(rng.integers(0, m.n))
                ok = True
                pars = []
                for arg in zs:
                    ctor = [a for a, pn in bs["args"].items() if pn == arg]
                    par = getattr(blk, ctor[0], None) if ctor else None
                    if not (isinstance(par, NumParam) and par.name in m.params and m.params[par.name] is par):
                        ok = False
                    pars.append(par)
                if ok:
                    for par in pars:
                        par.v[k] = 0.0
                    changed.append("%s.%s[%d]: %s := 0" % (mname, bname, k, [p_.name for p_ in pars]))
    if ss.IEEEST.n and spec["index"] > 0:
        # input signals that do not vanish in steady state, output limits out of the way
        for k in range(ss.IEEEST.n):
            ss.IEEEST.MODE.v[k] = int(rng.integers(1, 7))
            ss.IEEEST.LSMAX.v[k], ss.IEEEST.LSMIN.v[k] = 99.0, -99.0
        changed.append("IEEEST.MODE := %s" % list(ss.IEEEST.MODE.v))
    tag = "%s %s" % (spec["case"], changed[:6])
    try:
        ss.setup()
        if not ss.PFlow.run():
            res.inconc("power flow failed")
            return
        ss.TDS.config.no_tqdm = 1
        ss.TDS.init()
    except Exception as e:
        res.violate("inmodel_init_raises", "%s: set-up / initialisation raised %r" % (tag, e))
        return
    dae = ss.dae
    for mname, m in ss.models.items():
        if m.n == 0 or not m.flags.tds:
            continue
        for bname, blk in m.blocks.items():
            # limiter / anti-windup flags of the block itself
            engaged = np.zeros(m.n, dtype=bool)
            for v in blk.vars.values():
                for fl in ("zl", "zu"):
                    z = getattr(v, fl, None)
                    if z is not None and np.size(z) == m.n and not hasattr(v, "e_code"):
                        engaged |= np.asarray(z) != 0
            for vname, var in blk.vars.items():
                code = getattr(var, "e_code", None)
                if code not in ("f", "g") or not len(np.atleast_1d(var.a)) or getattr(var, "e_str", None) is None:
                    continue
                r = (dae.f if code == "f" else dae.g)[np.atleast_1d(var.a).astype(int)]
                if len(r) != m.n:
                    continue
                use = ~engaged & (np.asarray(m.u.v) != 0)
                res.count("inmodel_block_equations_checked", int(use.sum()))
                bad = use & ~(np.abs(r) <= 1e-6)
                if bad.any():
                    k = int(np.where(bad)[0][0])
                    res.violate("inmodel_block_not_in_steady_state", "%s: after TDS.init() the equation of %s.%s_%s (block %s) of device %r is at %.4e" % (
                        tag, mname, bname, vname, type(blk).__name__, m.idx.v[k], float(r[k])), model=mname, block=type(blk).__name__)
                    break
    res.count("inmodel_bypasses_set", len(changed))
    res.sig = "inmodel:%s:%d:%d" % (spec["case"], spec.get("seed", 0), spec["index"])
    res.nontrivial = res.obs.get("inmodel_block_equations_checked", 0) >= 10
    res.sample = dict(case=spec["case"], changed=changed[:8], test_ok=ss.TDS.test_ok, equations=res.obs.get("inmodel_block_equations_checked", 0))


def run_case(spec):
    res = Result(spec)
    {"tf": run_tf, "lsim": run_lsim, "inmodel": run_inmodel}[spec["kind"]](spec, res)
    return res


def finding_key(w, spec):
    return w.get("mech")
