"""
C08 - Eigenvalue analysis reports the true small-signal modes of the DAE.

Monitor: the real ``EIG.run()`` on stock dynamic cases, operating-point sweeps and cases with
injected zero time constants; oracle: dense generalised eigenproblem (scipy.linalg.eig(A, E) with
A = [[fx, fy], [gx, gy]], E = diag(Tf, 0)) restricted to its finite eigenvalues, own dense Schur
complement for the state matrix, own participation factors and the written report.
"""
import os
import re

import numpy as np

from vf.util import Result, rng_for

PROPERTY = "C08"
LEVEL = "exploration"
TIMEOUT = 900
RULE = ("stock dynamic cases at their own operating point and after load scaling / set-point changes / line outages (PF and "
        "initialisation re-run), and the same with 1-4 lag/lead-lag time constants set to zero at first / middle / last state "
        "positions (only constants whose model documents the zero bypass). Non-trivial: >= 10 finite modes matched one-to-one; "
        "distinct = (case, operating point, zeroed constants).")
ASSUMPTIONS = ["finite generalised eigenvalues := those with |beta| > 1e-9 |alpha| scale in scipy's (alpha, beta) form, cross-checked "
               "by count = number of states with non-zero time constant",
               "modes whose two largest participation factors differ by < 1e-3 are skipped for the 'most associated' clause"]
REQUIRED_OBS = {"modes_matched": 300, "zero_time_constant_cases": 3, "reports_parsed": 5, "participation_columns_checked": 300}

CASES = ["kundur/kundur_full.xlsx", "ieee14/ieee14_full.xlsx", "kundur/kundur_exdc2_zero_tb.xlsx", "wecc/wecc_gencls.xlsx",
         "kundur/kundur_ieeest.xlsx", "ieee39/ieee39_full.xlsx", "ieee14/ieee14_esst3a.xlsx", "kundur/kundur_sexs.xlsx",
         "smib/SMIB.xlsx", "5bus/pjm5bus.xlsx", "kundur/kundur_ieeeg1.xlsx", "ieee14/ieee14_exac1.xlsx", "kundur/kundur_aw.xlsx",
         "npcc/npcc.xlsx", "ieee14/ieee14_hygov.xlsx", "kundur/kundur_st2cut.xlsx", "wecc/wecc_full.xlsx", "ieee14/ieee14_wt3.xlsx"]

# time constants that the model documentation allows to be zero (block bypass)
# (probed on the pinned tree: with each of these set to zero alone, initialisation succeeds and an undisturbed run stays put)
ZEROABLE = [("EXDC2", "TB"), ("EXDC2", "TR"), ("EXDC2", "TA"), ("EXDC2", "TC"), ("TGOV1", "T1"), ("TGOV1", "T3"), ("TGOV1", "T2"),
            ("EXST1", "TB"), ("EXST1", "TR"), ("EXST1", "TA"), ("SEXS", "TB"), ("IEEEG1", "T1"), ("ESST3A", "TR"), ("ESST3A", "TB"),
            ("ESST3A", "TA"), ("EXAC1", "TB"), ("ESDC2A", "TB"), ("ST2CUT", "T1")]


def cases(tier, seed):
    out = []
    cs = CASES[:10] if tier == "quick" else CASES
    for c in cs:
        out.append(dict(id="base:" + c, kind="eig", case=c, op=None, zero=0))
    n = 20 if tier == "quick" else 250
    for i in range(n):
        out.append(dict(id="var%04d" % i, kind="eig", case=cs[i % len(cs)], op=i, zero=(i % 3 != 0)))
    # histories on one System: EIG.run, then parameter alterations / EIG.sweep, then EIG.run again ...
    n = 12 if tier == "quick" else 150
    for i in range(n):
        out.append(dict(id="seq%04d" % i, kind="seq", case=cs[(i * 7) % len(cs)], op=5000 + i, zero=(i % 2 == 0), sweep=(i % 3 == 0)))
    return out


def worker_init():
    from vf import au
    au.quiet()


def dense(m):
    from kvxopt import matrix
    return np.array(matrix(m))


def own_participation(As):
    mu, N = np.linalg.eig(As)
    W = np.linalg.inv(N).T
    P = np.abs(W) * np.abs(N)          # rows: states, columns: modes
    P = P / P.sum(axis=0, keepdims=True)
    return mu, P


def match(a, b):
    """One-to-one matching of two spectra; returns (max relative distance, permutation)."""
    from scipy.optimize import linear_sum_assignment
    C = np.abs(a[:, None] - b[None, :])
    ri, ci = linear_sum_assignment(C)
    rel = C[ri, ci] / (1.0 + np.abs(b[ci]))
    return float(rel.max()) if len(rel) else 0.0, ci


def prepare(spec, rng, sd):
    from vf import au
    ss = au.load(spec["case"], setup=False, no_output=False, output_path=sd)
    ss.setup()
    desc = []
    if spec["op"] is not None:
        k = int(rng.integers(0, 4))
        if k == 0 and ss.PQ.n:
            f = float(rng.uniform(0.9, 1.06))
            ss.PQ.alter("p0", ss.PQ.idx.v, ss.PQ.p0.v * f)
            ss.PQ.alter("q0", ss.PQ.idx.v, ss.PQ.q0.v * f)
            desc.append("loads x%.3f" % f)
        elif k == 1 and ss.PV.n:
            j = int(rng.integers(0, ss.PV.n))
            ss.PV.alter("v0", ss.PV.idx.v[j], float(ss.PV.v0.v[j] + rng.uniform(-0.02, 0.02)))
            desc.append("PV %r v0 shifted" % ss.PV.idx.v[j])
        elif k == 2 and ss.Line.n > 6:
            j = int(rng.integers(0, ss.Line.n))
            ss.Line.alter("u", ss.Line.idx.v[j], 0)
            desc.append("line %r out" % ss.Line.idx.v[j])
        else:
            desc.append("as shipped")
    zeroed = []
    ss._vf_zeroed = []
    if spec["zero"]:
        avail = [(m, p) for m, p in ZEROABLE if getattr(ss, m).n > 0]
        if spec.get("kind") == "seq":
            # histories start from a system that does have states with zero time constant (lead constants make none)
            avail = [(m, p) for m, p in avail if (m, p) not in (("EXDC2", "TC"), ("TGOV1", "T2"))]
        rng.shuffle(avail)
        for m, p in avail[: int(rng.integers(1, 4))]:
            M = getattr(ss, m)
            which = [0, M.n // 2, M.n - 1][int(rng.integers(0, 3))]
            if rng.random() < 0.3:
                which = list(range(M.n))
            M.alter(p, M.idx.v[which] if isinstance(which, int) else M.idx.v, 0.0)
            zeroed.append("%s.%s[%s]" % (m, p, which))
            ss._vf_zeroed.append((m, p, M.idx.v[which] if isinstance(which, int) else list(M.idx.v)))
    if not ss.PFlow.run():
        return ss, desc, zeroed, "pf"
    ss.TDS.config.no_tqdm = 1
    ss.TDS.init()
    if ss.TDS.test_ok is False or ss.dae.n == 0:
        return ss, desc, zeroed, "init"
    return ss, desc, zeroed, "ok"


def check_eig(res, ss, tag, zeroed, mu_given=None, refresh=False):
    """Compare what EIG holds (or ``mu_given``: eigenvalues returned by a sweep round) with the independent oracles computed
    from the DAE matrices.  ``refresh``: the oracle re-evaluates residuals and Jacobians at the current point with the
    current parameter values first (EIG's results were copied before), so that it does not inherit stale matrices."""
    from scipy.linalg import eig as geig
    light = mu_given is not None
    held = dict(mu=np.array(ss.EIG.mu).ravel().copy() if not light else np.array(mu_given).ravel().copy())
    if not light:
        held.update(As=np.array(ss.EIG.As).copy(), pf=np.array(ss.EIG.pfactors).copy(), names=list(ss.EIG.x_name),
                    counts=(int(ss.EIG.n_positive), int(ss.EIG.n_zeros), int(ss.EIG.n_negative)))
    if refresh:
        ss.TDS.fg_update(ss.exist.pflow_tds)
        ss.j_update(ss.exist.pflow_tds)
        res.count("oracle_refreshed_matrices")
    dae = ss.dae
    fx, fy, gx, gy = dense(dae.fx), dense(dae.fy), dense(dae.gx), dense(dae.gy)
    Tf = np.array(dae.Tf, dtype=float)
    if refresh:
        # time constants as the models hold them now
        Tf = np.ones(dae.n)
        for mdl in ss.exist.pflow_tds.values():
            for var in mdl.cache.states_and_ext.values():
                if var.t_const is not None and len(np.atleast_1d(var.a)):
                    Tf[np.atleast_1d(var.a).astype(int)] = np.asarray(var.t_const.v, dtype=float)
        if not np.array_equal(Tf, np.array(dae.Tf, dtype=float)):
            res.violate("time_constants_stale", "%s: dae.Tf differs from the time constants the models hold" % tag, zeroed=zeroed)
    n, m = dae.n, dae.m
    nz = int(np.sum(Tf != 0))
    if nz != n:
        res.count("zero_time_constant_cases")
    # ---- oracle 1: finite generalised eigenvalues of (A, E)
    A = np.block([[fx, fy], [gx, gy]])
    E = np.zeros((n + m, n + m))
    E[np.arange(n), np.arange(n)] = Tf
    al, be = geig(A, E, right=False, homogeneous_eigvals=True)
    scale = np.abs(al) + np.abs(be)
    fin = np.abs(be) > 1e-9 * scale
    lam = (al[fin] / be[fin])
    mu = held["mu"]
    # ---- oracle 2: own Schur complement (states with T = 0 moved to the algebraic side)
    sidx = np.where(Tf != 0)[0]
    zidx = np.where(Tf == 0)[0]
    F = fx - fy @ np.linalg.solve(gy, gx)            # d(T xdot)/dx with y eliminated
    if len(zidx):
        Fss, Fsz, Fzs, Fzz = F[np.ix_(sidx, sidx)], F[np.ix_(sidx, zidx)], F[np.ix_(zidx, sidx)], F[np.ix_(zidx, zidx)]
        if np.linalg.matrix_rank(Fzz) < len(zidx):
            # the block of the zero-T states is singular (higher-index arrangement, e.g. a second-order block with both time
            # constants zero): the own Schur complement does not exist, but the pencil (A, E) is still regular and its finite
            # generalised eigenvalues (oracle 1, QZ) are the modes.  Whatever EIG reports as success must be that spectrum.
            res.count("singular_zero_T_block_decided_by_pencil")
            lam_f = lam[np.isfinite(lam)]
            if len(lam_f) != len(lam) or len(lam) == 0:
                res.count("out_of_scope_singular_pencil")
                res.sig = tag
                return None
            if len(mu) != len(lam):
                res.violate("mode_count_singular_zero_block", "%s: %d eigenvalues reported as a successful analysis, the pencil (A, E) has %d finite "
                            "generalised eigenvalues (%d states, %d zero time constants whose block is singular); largest reported real part %.3g, "
                            "largest real part of the finite spectrum %.3g" % (tag, len(mu), len(lam), n, n - nz, float(np.max(mu.real)) if len(mu) else float("nan"),
                                                                              float(np.max(lam.real))), zeroed=zeroed, n_zero=n - nz)
            else:
                dist, _ = match(mu, lam)
                res.maxobs("max_mode_distance_singular_zero_block", dist)
                res.count("modes_matched", len(mu))
                if dist > 1e-5:
                    res.violate("eigenvalues_singular_zero_block", "%s: reported eigenvalues differ from the finite generalised eigenvalues of (A, E) by %.3e relative" % (
                        tag, dist), zeroed=zeroed)
            res.sig = tag
            return None
        Ared = Fss - Fsz @ np.linalg.solve(Fzz, Fzs)
    else:
        Ared = F
    As_own = Ared / Tf[sidx][:, None]
    lam2 = np.linalg.eigvals(As_own)
    # conditioning, measured: the same reduction from matrices moved by a few ulp, and the spectrum of a state matrix moved by
    # 1e-14 (a defective zero eigenvalue - angle reference - moves with the square root of a perturbation)
    jr = np.random.default_rng(12345)

    def jit(M_, rel):
        return M_ * (1.0 + rel * jr.choice([-1.0, 1.0], M_.shape))
    try:
        fxj, fyj, gxj, gyj = jit(fx, 4e-16), jit(fy, 4e-16), jit(gx, 4e-16), jit(gy, 4e-16)
        Fj = fxj - fyj @ np.linalg.solve(gyj, gxj)
        if len(zidx):
            Fj = Fj[np.ix_(sidx, sidx)] - Fj[np.ix_(sidx, zidx)] @ np.linalg.solve(Fj[np.ix_(zidx, zidx)], Fj[np.ix_(zidx, sidx)])
        As_j = Fj / Tf[sidx][:, None]
        da_cond = float(np.max(np.abs(As_j - As_own)) / (1 + np.max(np.abs(As_own))))
    except Exception:
        da_cond = 0.0
    lam_j = np.linalg.eigvals(jit(As_own, 1e-14))
    if len(lam_j) == len(lam2) and len(lam2):
        _, pj = match(lam2, lam_j)
        spread = np.abs(lam2 - lam_j[pj])
    else:
        spread = np.zeros(len(lam2))
    cross, _ = match(lam, lam2) if len(lam) == len(lam2) else (float("inf"), None)
    if len(lam) != nz or cross > 1e-5:
        res.inconc("the two independent oracles disagree (%d finite generalised eigenvalues, %d states with T != 0, distance %.2e)" % (
            len(lam), nz, cross))
        return None
    if len(mu) != nz:
        res.violate("mode_count", "%s: %d eigenvalues reported, the DAE has %d finite modes (%d states, %d zero time constants)" % (
            tag, len(mu), nz, n, n - nz), zeroed=zeroed, n_zero=n - nz)
    else:
        d, perm = match(mu, lam2)
        res.count("modes_matched", len(mu))
        res.maxobs("max_mode_distance", d)
        allow = 1e-6 * (1 + np.abs(lam2[perm])) + 30.0 * spread[perm]
        over = np.abs(mu - lam2[perm]) / allow
        if np.any(30.0 * spread[perm] > 1e-6):
            res.count("ill_conditioned_modes_with_measured_allowance", int(np.sum(30.0 * spread[perm] > 1e-6)))
        # the spectrum from the QZ decomposition of the whole pencil is the other, independent reference; a reported value
        # is fine when either reference confirms it (the two-stage Schur complement loses digits of a structurally zero mode)
        if over.max() > 1.0 and len(lam) == len(mu):
            dq, pq = match(mu, lam)
            over_q = np.abs(mu - lam[pq]) / (1e-6 * (1 + np.abs(lam[pq])))
            if over_q.max() <= 1.0:
                res.count("modes_confirmed_by_pencil_only")
                over = over_q
        if over.max() > 1.0:
            worst = over
            j = int(np.argmax(worst))
            res.violate("eigenvalues_zero_time_constant" if (n - nz) > 0 else "eigenvalues_wrong",
                        "%s: reported eigenvalue %s has no counterpart in the spectrum of the linearised DAE (nearest %s; max Re reported "
                        "%.4g, true %.4g)" % (tag, mu[j], lam2[perm][j], mu.real.max(), lam2.real.max()), zeroed=zeroed, n_zero=n - nz)
    if light:
        return True
    # state matrix
    As = held["As"]
    if As.shape == As_own.shape:
        da = float(np.max(np.abs(As - As_own)) / (1 + np.max(np.abs(As_own))))
        res.maxobs("max_state_matrix_rel_difference", da)
        if da > 1e-8 + 1e3 * da_cond:
            res.violate("state_matrix_zero_time_constant" if (n - nz) > 0 else "state_matrix",
                        "%s: EIG.As differs from T^-1(fx - fy gy^-1 gx) by %.3e (relative)" % (tag, da), zeroed=zeroed, n_zero=n - nz)
    elif not res.violations:
        res.violate("state_matrix_shape", "%s: EIG.As has shape %s, expected %s" % (tag, As.shape, As_own.shape), zeroed=zeroed, n_zero=n - nz)
    # counts partition the spectrum
    tol = float(ss.EIG.config.tol)
    npos, nzer, nneg = held["counts"]
    res.count("count_checks")
    if npos + nzer + nneg != len(mu):
        res.violate("counts_do_not_partition", "%s: positive+zero+negative = %d+%d+%d != %d eigenvalues" % (tag, npos, nzer, nneg, len(mu)))
    own = (int(np.sum(mu.real > tol)), int(np.sum(np.abs(mu.real) <= tol)), int(np.sum(mu.real < -tol)))
    if (npos, nzer, nneg) != own and npos + nzer + nneg == len(mu):
        res.violate("counts_wrong", "%s: counts %s, own count with tol=%g: %s" % (tag, (npos, nzer, nneg), tol, own))
    # participation factors
    P = held["pf"]      # rows: modes, columns: states
    if P.shape == (len(mu), len(mu)) and not res.violations:
        res.count("participation_columns_checked", len(mu))
        if P.min() < 0:
            res.violate("participation_negative", "%s: negative participation factor %r" % (tag, float(P.min())))
        s = P.sum(axis=1)
        if np.max(np.abs(s - 1)) > len(mu) * 1e-5 + 1e-9:
            res.violate("participation_sum", "%s: participation factors of a mode sum to %r" % (tag, float(s[np.argmax(np.abs(s - 1))])))
        mu_o, P_o = own_participation(held["As"])
        d2, perm2 = match(mu, mu_o)
        names = held["names"]
        # report
        rep = ss.files.eig
        assoc = {}
        if os.path.isfile(rep):
            for line in open(rep):
                mm = re.match(r"^#(\d+)\s+(.*?)\s+(-?[\d.eE+-]+)\s+(-?[\d.eE+-]+)\s+\S+\s+\S+\s+\S+\s*$", line)
                if mm:
                    assoc[int(mm.group(1)) - 1] = mm.group(2).strip()
            res.count("reports_parsed")
        sx = [names[i] for i in range(len(names))]
        want_names = np.array(dae.x_name)[sidx]
        if list(sx) != list(want_names):
            res.violate("state_names_zero_time_constant" if (n - nz) > 0 else "state_names",
                        "%s: EIG.x_name does not list the states with non-zero time constant in order" % tag, zeroed=zeroed, n_zero=n - nz)
        elif d2 < 1e-6:
            for k in range(len(mu)):
                col = P_o[:, perm2[k]]
                srt = np.sort(col)
                if srt[-1] - srt[-2] < 1e-3:
                    res.count("ambiguous_modes_skipped")
                    continue
                top = want_names[int(np.argmax(col))]
                if k in assoc:
                    res.count("most_associated_checked")
                    if assoc[k] != top:
                        res.violate("most_associated", "%s: mode #%d (%s) is reported as most associated with %r; own participation factors "
                                    "give %r" % (tag, k + 1, mu[k], assoc[k], top))
                        break
    return True


GAINS = [("EXDC2", "KA"), ("EXDC2", "KE"), ("TGOV1", "R"), ("TGOV1", "Dt"), ("EXST1", "KA"), ("SEXS", "K"), ("IEEEG1", "K"), ("ESST3A", "KA"),
         ("GENROU", "D"), ("GENCLS", "D"), ("IEEEST", "KS"), ("ST2CUT", "K1"), ("EXAC1", "KA"), ("HYGOV", "R")]
TCONST = [("GENROU", "M"), ("GENCLS", "M"), ("EXDC2", "TA"), ("EXDC2", "TE"), ("TGOV1", "T1"), ("TGOV1", "T3"), ("GENROU", "Td10"),
          ("EXST1", "TA"), ("SEXS", "TA"), ("IEEEG1", "T4"), ("EXAC1", "TA")]


def own_spectrum(ss):
    """Finite modes from the DAE matrices re-evaluated at the point the system is at (time constants read from the models)."""
    ss.TDS.fg_update(ss.exist.pflow_tds)
    ss.j_update(ss.exist.pflow_tds)
    dae = ss.dae
    fx, fy, gx, gy = dense(dae.fx), dense(dae.fy), dense(dae.gx), dense(dae.gy)
    Tf = np.ones(dae.n)
    for mdl in ss.exist.pflow_tds.values():
        for var in mdl.cache.states_and_ext.values():
            if var.t_const is not None and len(np.atleast_1d(var.a)):
                Tf[np.atleast_1d(var.a).astype(int)] = np.asarray(var.t_const.v, dtype=float)
    sidx, zidx = np.where(Tf != 0)[0], np.where(Tf == 0)[0]
    F = fx - fy @ np.linalg.solve(gy, gx)
    if len(zidx):
        Fzz = F[np.ix_(zidx, zidx)]
        if np.linalg.matrix_rank(Fzz) < len(zidx):
            return None
        F = F[np.ix_(sidx, sidx)] - F[np.ix_(sidx, zidx)] @ np.linalg.solve(Fzz, F[np.ix_(zidx, sidx)])
    return np.linalg.eigvals(F / Tf[sidx][:, None])


def run_sequence(res, ss, spec, rng, tag, sd):
    """EIG has run once on ``ss``.  Now: parameter changes through the public calls, each followed by another analysis."""
    nops = int(rng.integers(1, 4))
    for step in range(nops):
        kinds = ["restore_T", "zero_more", "gain", "undamp", "sweep"] if step == 0 else ["restore_T", "zero_more", "gain", "undamp"]
        kind = kinds[int(rng.integers(0, len(kinds)))]
        if step == 0 and spec.get("sweep"):
            kind = "sweep"
        elif step == 0 and ss._vf_zeroed and rng.random() < 0.6:
            kind = "restore_T"
        if kind == "restore_T" and not ss._vf_zeroed:
            kind = "gain"
        stag = "%s | step %d: " % (tag, step + 1)
        if kind == "sweep":
            pool = [(m, p) for m, p in GAINS + TCONST if getattr(ss, m).n > 0]
            if not pool:
                continue
            m, p = pool[int(rng.integers(0, len(pool)))]
            M = getattr(ss, m)
            dev = M.idx.v[int(rng.integers(0, M.n))]
            v0 = float(M.params[p].v[M.idx2uid(dev)])
            vals = [float(v0 * f) if v0 != 0 else float(f) for f in (0.6, 1.0, 1.7)]
            is_t = (m, p) in TCONST
            try:
                ret = ss.EIG.sweep(M.params[p], dev, np.array(vals))
            except Exception as e:
                res.violate("sweep_raises", "%sEIG.sweep(%s.%s, %r, %s) raised %r" % (stag, m, p, dev, vals, e))
                return
            res.count("sweeps")
            # reference: an identically prepared system that has had the value from the start
            for k, val in enumerate(vals):
                ss2, _, _, status = prepare(spec, rng_for(spec.get("seed", 0), PROPERTY, spec["op"] + 1), sd)
                if status != "ok":
                    res.inconc("reference system for the sweep could not be prepared (%s)" % status)
                    return
                ss2.TDS.initialized = False
                M2 = getattr(ss2, m)
                M2.params[p].v[M2.idx2uid(dev)] = val
                ss2.dae.x[:] = 0
                ss2.dae.y[:] = 0
                ss2.TDS.init()
                if ss2.TDS.test_ok is False:
                    res.count("sweep_reference_init_failed")
                    continue
                lam = own_spectrum(ss2)
                mu = np.array(ret[k]["mu"]).ravel()
                if lam is None:
                    continue
                res.count("sweep_rounds_checked")
                res.count("sweep_rounds_time_constant" if is_t else "sweep_rounds_gain")
                if len(mu) != len(lam):
                    res.violate("sweep_mode_count", "%ssweep of %s.%s[%r]=%g reports %d eigenvalues, the DAE has %d finite modes" % (
                        stag, m, p, dev, val, len(mu), len(lam)))
                    return
                d, _ = match(mu, lam)
                res.maxobs("max_sweep_mode_distance", d)
                if d > 1e-5:
                    res.violate("sweep_time_constant_wrong" if is_t else "sweep_eigenvalues_wrong",
                                "%ssweep of %s.%s[%r] round %d (value %g): reported spectrum differs from the modes of the system "
                                "holding that value by %.3e (relative)" % (stag, m, p, dev, k, val, d), param="%s.%s" % (m, p))
                    return
            return      # the sweep leaves the system at its last value; nothing further in this history
        desc = None
        if kind == "restore_T":
            for m, p, idxs in ss._vf_zeroed:
                M = getattr(ss, m)
                M.alter(p, idxs, float(np.round(rng.uniform(0.02, 0.5), 3)))
            desc = "time constants %s set back to non-zero values" % [(m, p) for m, p, _ in ss._vf_zeroed]
            ss._vf_zeroed = []
        elif kind == "zero_more":
            avail = [(m, p) for m, p in ZEROABLE if getattr(ss, m).n > 0 and not any(z[0] == m and z[1] == p for z in ss._vf_zeroed)]
            if not avail:
                continue
            m, p = avail[int(rng.integers(0, len(avail)))]
            M = getattr(ss, m)
            dev = M.idx.v[int(rng.integers(0, M.n))]
            M.alter(p, dev, 0.0)
            ss._vf_zeroed.append((m, p, dev))
            desc = "%s.%s[%r] := 0" % (m, p, dev)
        elif kind == "gain":
            pool = [(m, p) for m, p in GAINS if getattr(ss, m).n > 0]
            if not pool:
                continue
            m, p = pool[int(rng.integers(0, len(pool)))]
            M = getattr(ss, m)
            dev = M.idx.v[int(rng.integers(0, M.n))]
            old = float(M.params[p].vin[M.idx2uid(dev)])
            new = old * float(rng.uniform(0.5, 1.6)) if old != 0 else float(rng.uniform(0.5, 2.0))
            M.alter(p, dev, new)
            desc = "%s.%s[%r]: %g -> %g" % (m, p, dev, old, new)
        elif kind == "undamp":
            done = []
            for m in ("GENCLS", "GENROU"):
                M = getattr(ss, m)
                if M.n:
                    M.alter("D", list(M.idx.v), 0.0)
                    done.append(m)
            desc = "D := 0 for all %s" % done
        res.count("sequence_steps")
        res.count("sequence_" + kind)
        try:
            ok = ss.EIG.run()
        except Exception as e:
            res.violate("eig_raises", "%s%s; EIG.run() raised %r" % (stag, desc, e))
            return
        if not ok:
            res.count("sequence_eig_returned_false")
            return
        if check_eig(res, ss, stag + desc, [z[:2] for z in ss._vf_zeroed], refresh=True) is None or res.violations:
            return


def limit_step(res, ss, spec, tag):
    """EIG has run on ``ss`` (possibly several times)."""
    # a limiter that changes its status between two analyses on the same System: a bound given as a plain parameter is moved
    # across the present value of the limited quantity (own random stream: earlier histories stay what they were)
    rng2 = rng_for(spec.get("seed", 0), PROPERTY, 77, 0 if spec["op"] is None else spec["op"] + 1)
    if rng2.random() < 0.7:
        from andes.core.discrete import Limiter
        from andes.core.param import NumParam
        cands = []
        for mname, M in ss.exist.tds.items():
            if M.n == 0:
                continue
            for dname, D in M.discrete.items():
                if not isinstance(D, Limiter) or type(D).__name__ not in ("Limiter", "HardLimiter"):
                    continue
                up, uvar = getattr(D, "upper", None), getattr(D, "u", None)
                if isinstance(up, NumParam) and up.name in M.params and hasattr(uvar, "v") and hasattr(uvar, "a") and len(np.atleast_1d(uvar.v)) == M.n:
                    cands.append((mname, dname, up.name))
        if cands:
            mname, dname, pn = cands[int(rng2.integers(0, len(cands)))]
            M = getattr(ss, mname)
            D = M.discrete[dname]
            j = int(rng2.integers(0, M.n))
            dev = M.idx.v[j]
            ss.vars_to_models()
            uval = float(np.atleast_1d(D.u.v)[j])
            kco = float(M.params[pn].pu_coeff[j]) if hasattr(M.params[pn], "pu_coeff") else 1.0
            new = (uval - 0.05 * abs(uval) - 0.01) / (kco if kco else 1.0)
            stag = "%s | limit step: " % tag
            desc = "%s.%s[%r] := %.4g (upper bound of %s, limited quantity at %.4g)" % (mname, pn, dev, new, dname, uval)
            try:
                M.alter(pn, dev, new)
                ok = ss.EIG.run()
            except Exception as e:
                res.violate("eig_raises", "%s%s; raised %r" % (stag, desc, e))
                return
            res.count("sequence_limit_moved_across_operating_value")
            if ok:
                zu = np.atleast_1d(D.zu)[j] if hasattr(D, "zu") else None
                if zu == 1:
                    res.count("sequence_limiter_engaged_before_second_analysis")
                check_eig(res, ss, stag + desc, [z[:2] for z in ss._vf_zeroed], refresh=True)


def run_case(spec):
    from vf import au
    from scipy.linalg import eig as geig
    res = Result(spec)
    rng = rng_for(spec.get("seed", 0), PROPERTY, 0 if spec["op"] is None else spec["op"] + 1)
    with au.Scratch("c08") as sd:
        ss = None
        for attempt in range(4):
            ss, desc, zeroed, status = prepare(spec, rng, sd)
            tag = "%s %s zero=%s" % (spec["case"], desc, zeroed)
            if status == "ok":
                break
            res.count("operating_points_rejected_" + status)
        if status != "ok":
            res.inconc("no operating point with converged power flow and successful initialisation in 4 draws (%s)" % tag)
            return res
        try:
            ok = ss.EIG.run()
        except Exception as e:
            res.violate("eig_raises", "%s: EIG.run() raised %r" % (tag, e), zeroed=zeroed)
            return res
        if not ok:
            # a refusal is a reported failure, not a wrong spectrum: counted, and required to be visible in the exit code
            res.count("eig_reported_failure")
            if not ss.exit_code:
                res.violate("eig_failure_exit_code_zero", "%s: EIG.run() returned False but System.exit_code is 0" % tag)
            res.sig = tag
            res.sample = dict(case=spec["case"], operating_point=desc, zeroed=zeroed, eig_returned=False)
            return res
        if check_eig(res, ss, tag, zeroed) is None:
            res.sig = tag
            return res
        n, nz = ss.dae.n, int(np.sum(np.array(ss.dae.Tf) != 0))
        mu = np.array(ss.EIG.mu).ravel()
        npos, nzer, nneg = int(ss.EIG.n_positive), int(ss.EIG.n_zeros), int(ss.EIG.n_negative)
        if spec["kind"] == "seq" and not res.violations:
            run_sequence(res, ss, spec, rng, tag, sd)
        if spec["kind"] in ("seq", "var") and not res.violations and not res.inconclusive:
            limit_step(res, ss, spec, tag)
        res.sig = tag
        res.nontrivial = res.obs.get("modes_matched", 0) >= 10
        res.sample = dict(case=spec["case"], operating_point=desc, zeroed=zeroed, states=n, zero_T=n - nz, modes=len(mu),
                          counts=[npos, nzer, nneg], max_distance=res.obs.get("max_mode_distance"))
    return res


def finding_key(w, spec):
    return w.get("mech")
