"""
C08 - Eigenvalue analysis reports the true small-signal modes of the DAE.

Monitor: the real ``EIG.run()`` on stock dynamic cases, operating-point sweeps and cases with
injected zero time constants; oracle: dense generalised eigenproblem (scipy.linalg.eig(A, E) with
A = [[fx, fy], [gx, gy]], E = diag(Tf, 0)) restricted to its finite eigenvalues, own dense Schur
complement for the state matrix, own participation factors and the written report.
"""
import os
import re

import numpy as np

from vf.util import Result, rng_for

PROPERTY = "C08"
LEVEL = "exploration"
TIMEOUT = 900
RULE = ("stock dynamic cases at their own operating point and after load scaling / set-point changes / line outages (PF and "
        "initialisation re-run), and the same with 1-4 lag/lead-lag time constants set to zero at first / middle / last state "
        "positions (only constants whose model documents the zero bypass). Non-trivial: >= 10 finite modes matched one-to-one; "
        "distinct = (case, operating point, zeroed constants).")
ASSUMPTIONS = ["finite generalised eigenvalues := those with |beta| > 1e-9 |alpha| scale in scipy's (alpha, beta) form, cross-checked "
               "by count = number of states with non-zero time constant",
               "modes whose two largest participation factors differ by < 1e-3 are skipped for the 'most associated' clause"]
REQUIRED_OBS = {"modes_matched": 300, "zero_time_constant_cases": 3, "reports_parsed": 5, "participation_columns_checked": 300}

CASES = ["kundur/kundur_full.xlsx", "ieee14/ieee14_full.xlsx", "kundur/kundur_exdc2_zero_tb.xlsx", "wecc/wecc_gencls.xlsx",
         "kundur/kundur_ieeest.xlsx", "ieee39/ieee39_full.xlsx", "ieee14/ieee14_esst3a.xlsx", "kundur/kundur_sexs.xlsx",
         "smib/SMIB.xlsx", "5bus/pjm5bus.xlsx", "kundur/kundur_ieeeg1.xlsx", "ieee14/ieee14_exac1.xlsx", "kundur/kundur_aw.xlsx",
         "npcc/npcc.xlsx", "ieee14/ieee14_hygov.xlsx", "kundur/kundur_st2cut.xlsx", "wecc/wecc_full.xlsx", "ieee14/ieee14_wt3.xlsx"]

# time constants that the model documentation allows to be zero (block bypass)
# (probed on the pinned tree: with each of these set to zero alone, initialisation succeeds and an undisturbed run stays put)
ZEROABLE = [("EXDC2", "TB"), ("EXDC2", "TR"), ("EXDC2", "TA"), ("EXDC2", "TC"), ("TGOV1", "T1"), ("TGOV1", "T3"), ("TGOV1", "T2"),
            ("EXST1", "TB"), ("EXST1", "TR"), ("EXST1", "TA"), ("SEXS", "TB"), ("IEEEG1", "T1"), ("ESST3A", "TR"), ("ESST3A", "TB"),
            ("ESST3A", "TA"), ("EXAC1", "TB"), ("ESDC2A", "TB"), ("ST2CUT", "T1")]


def cases(tier, seed):
    out = []
    cs = CASES[:10] if tier == "quick" else CASES
    for c in cs:
        out.append(dict(id="base:" + c, kind="eig", case=c, op=None, zero=0))
    n = 20 if tier == "quick" else 250
    for i in range(n):
        out.append(dict(id="var%04d" % i, kind="eig", case=cs[i % len(cs)], op=i, zero=(i % 3 != 0)))
    return out


def worker_init():
    from vf import au
    au.quiet()


def dense(m):
    from kvxopt import matrix
    return np.array(matrix(m))


def own_participation(As):
    mu, N = np.linalg.eig(As)
    W = np.linalg.inv(N).T
    P = np.abs(W) * np.abs(N)          # rows: states, columns: modes
    P = P / P.sum(axis=0, keepdims=True)
    return mu, P


def match(a, b):
    """One-to-one matching of two spectra; returns (max relative distance, permutation)."""
    from scipy.optimize import linear_sum_assignment
    C = np.abs(a[:, None] - b[None, :])
    ri, ci = linear_sum_assignment(C)
    rel = C[ri, ci] / (1.0 + np.abs(b[ci]))
    return float(rel.max()) if len(rel) else 0.0, ci


def prepare(spec, rng, sd):
    from vf import au
    ss = au.load(spec["case"], setup=False, no_output=False, output_path=sd)
    ss.setup()
    desc = []
    if spec["op"] is not None:
        k = int(rng.integers(0, 4))
        if k == 0 and ss.PQ.n:
            f = float(rng.uniform(0.9, 1.06))
            ss.PQ.alter("p0", ss.PQ.idx.v, ss.PQ.p0.v * f)
            ss.PQ.alter("q0", ss.PQ.idx.v, ss.PQ.q0.v * f)
            desc.append("loads x%.3f" % f)
        elif k == 1 and ss.PV.n:
            j = int(rng.integers(0, ss.PV.n))
            ss.PV.alter("v0", ss.PV.idx.v[j], float(ss.PV.v0.v[j] + rng.uniform(-0.02, 0.02)))
            desc.append("PV %r v0 shifted" % ss.PV.idx.v[j])
        elif k == 2 and ss.Line.n > 6:
            j = int(rng.integers(0, ss.Line.n))
            ss.Line.alter("u", ss.Line.idx.v[j], 0)
            desc.append("line %r out" % ss.Line.idx.v[j])
        else:
            desc.append("as shipped")
    zeroed = []
    if spec["zero"]:
        avail = [(m, p) for m, p in ZEROABLE if getattr(ss, m).n > 0]
        rng.shuffle(avail)
        for m, p in avail[: int(rng.integers(1, 4))]:
            M = getattr(ss, m)
            which = [0, M.n // 2, M.n - 1][int(rng.integers(0, 3))]
            if rng.random() < 0.3:
                which = list(range(M.n))
            M.alter(p, M.idx.v[which] if isinstance(which, int) else M.idx.v, 0.0)
            zeroed.append("%s.%s[%s]" % (m, p, which))
    if not ss.PFlow.run():
        return ss, desc, zeroed, "pf"
    ss.TDS.config.no_tqdm = 1
    ss.TDS.init()
    if ss.TDS.test_ok is False or ss.dae.n == 0:
        return ss, desc, zeroed, "init"
    return ss, desc, zeroed, "ok"


def run_case(spec):
    from vf import au
    from scipy.linalg import eig as geig
    res = Result(spec)
    rng = rng_for(spec.get("seed", 0), PROPERTY, 0 if spec["op"] is None else spec["op"] + 1)
    with au.Scratch("c08") as sd:
        ss = None
        for attempt in range(4):
            ss, desc, zeroed, status = prepare(spec, rng, sd)
            tag = "%s %s zero=%s" % (spec["case"], desc, zeroed)
            if status == "ok":
                break
            res.count("operating_points_rejected_" + status)
        if status != "ok":
            res.inconc("no operating point with converged power flow and successful initialisation in 4 draws (%s)" % tag)
            return res
        try:
            ok = ss.EIG.run()
        except Exception as e:
            res.violate("eig_raises", "%s: EIG.run() raised %r" % (tag, e), zeroed=zeroed)
            return res
        if not ok:
            res.inconc("EIG.run() returned False")
            return res
        dae = ss.dae
        fx, fy, gx, gy = dense(dae.fx), dense(dae.fy), dense(dae.gx), dense(dae.gy)
        Tf = np.array(dae.Tf, dtype=float)
        n, m = dae.n, dae.m
        nz = int(np.sum(Tf != 0))
        if nz != n:
            res.count("zero_time_constant_cases")
        # ---- oracle 1: finite generalised eigenvalues of (A, E)
        A = np.block([[fx, fy], [gx, gy]])
        E = np.zeros((n + m, n + m))
        E[np.arange(n), np.arange(n)] = Tf
        al, be = geig(A, E, right=False, homogeneous_eigvals=True)
        scale = np.abs(al) + np.abs(be)
        fin = np.abs(be) > 1e-9 * scale
        lam = (al[fin] / be[fin])
        mu = np.array(ss.EIG.mu).ravel()
        # ---- oracle 2: own Schur complement (states with T = 0 moved to the algebraic side)
        sidx = np.where(Tf != 0)[0]
        zidx = np.where(Tf == 0)[0]
        F = fx - fy @ np.linalg.solve(gy, gx)            # d(T xdot)/dx with y eliminated
        if len(zidx):
            Fss, Fsz, Fzs, Fzz = F[np.ix_(sidx, sidx)], F[np.ix_(sidx, zidx)], F[np.ix_(zidx, sidx)], F[np.ix_(zidx, zidx)]
            if np.linalg.matrix_rank(Fzz) < len(zidx):
                # the property is stated for systems with a non-singular algebraic block (zero-T states included)
                res.count("out_of_scope_singular_algebraic_block")
                res.sig = tag
                return res
            Ared = Fss - Fsz @ np.linalg.solve(Fzz, Fzs)
        else:
            Ared = F
        As_own = Ared / Tf[sidx][:, None]
        lam2 = np.linalg.eigvals(As_own)
        cross, _ = match(lam, lam2) if len(lam) == len(lam2) else (float("inf"), None)
        if len(lam) != nz or cross > 1e-5:
            res.inconc("the two independent oracles disagree (%d finite generalised eigenvalues, %d states with T != 0, distance %.2e)" % (
                len(lam), nz, cross))
            return res
        if len(mu) != nz:
            res.violate("mode_count", "%s: %d eigenvalues reported, the DAE has %d finite modes (%d states, %d zero time constants)" % (
                tag, len(mu), nz, n, n - nz), zeroed=zeroed, n_zero=n - nz)
        else:
            d, perm = match(mu, lam2)
            res.count("modes_matched", len(mu))
            res.maxobs("max_mode_distance", d)
            if d > 1e-6:
                worst = np.abs(mu - lam2[perm]) / (1 + np.abs(lam2[perm]))
                j = int(np.argmax(worst))
                res.violate("eigenvalues_zero_time_constant" if (n - nz) > 0 else "eigenvalues_wrong",
                            "%s: reported eigenvalue %s has no counterpart in the spectrum of the linearised DAE (nearest %s; max Re reported "
                            "%.4g, true %.4g)" % (tag, mu[j], lam2[perm][j], mu.real.max(), lam2.real.max()), zeroed=zeroed, n_zero=n - nz)
        # state matrix
        As = np.array(ss.EIG.As)
        if As.shape == As_own.shape:
            da = float(np.max(np.abs(As - As_own)) / (1 + np.max(np.abs(As_own))))
            res.maxobs("max_state_matrix_rel_difference", da)
            if da > 1e-8:
                res.violate("state_matrix_zero_time_constant" if (n - nz) > 0 else "state_matrix",
                            "%s: EIG.As differs from T^-1(fx - fy gy^-1 gx) by %.3e (relative)" % (tag, da), zeroed=zeroed, n_zero=n - nz)
        elif not res.violations:
            res.violate("state_matrix_shape", "%s: EIG.As has shape %s, expected %s" % (tag, As.shape, As_own.shape), zeroed=zeroed, n_zero=n - nz)
        # counts partition the spectrum
        tol = float(ss.EIG.config.tol)
        npos, nzer, nneg = int(ss.EIG.n_positive), int(ss.EIG.n_zeros), int(ss.EIG.n_negative)
        res.count("count_checks")
        if npos + nzer + nneg != len(mu):
            res.violate("counts_do_not_partition", "%s: positive+zero+negative = %d+%d+%d != %d eigenvalues" % (tag, npos, nzer, nneg, len(mu)))
        own = (int(np.sum(mu.real > tol)), int(np.sum(np.abs(mu.real) <= tol)), int(np.sum(mu.real < -tol)))
        if (npos, nzer, nneg) != own and npos + nzer + nneg == len(mu):
            res.violate("counts_wrong", "%s: counts %s, own count with tol=%g: %s" % (tag, (npos, nzer, nneg), tol, own))
        # participation factors
        P = np.array(ss.EIG.pfactors)      # rows: modes, columns: states
        if P.shape == (len(mu), len(mu)) and not res.violations:
            res.count("participation_columns_checked", len(mu))
            if P.min() < 0:
                res.violate("participation_negative", "%s: negative participation factor %r" % (tag, float(P.min())))
            s = P.sum(axis=1)
            if np.max(np.abs(s - 1)) > len(mu) * 1e-5 + 1e-9:
                res.violate("participation_sum", "%s: participation factors of a mode sum to %r" % (tag, float(s[np.argmax(np.abs(s - 1))])))
            mu_o, P_o = own_participation(np.array(ss.EIG.As))
            d2, perm2 = match(mu, mu_o)
            names = list(ss.EIG.x_name)
            # report
            rep = ss.files.eig
            assoc = {}
            if os.path.isfile(rep):
                for line in open(rep):
                    mm = re.match(r"^#(\d+)\s+(.*?)\s+(-?[\d.eE+-]+)\s+(-?[\d.eE+-]+)\s+\S+\s+\S+\s+\S+\s*$", line)
                    if mm:
                        assoc[int(mm.group(1)) - 1] = mm.group(2).strip()
                res.count("reports_parsed")
            sx = [names[i] for i in range(len(names))]
            want_names = np.array(dae.x_name)[sidx]
            if list(sx) != list(want_names):
                res.violate("state_names_zero_time_constant" if (n - nz) > 0 else "state_names",
                            "%s: EIG.x_name does not list the states with non-zero time constant in order" % tag, zeroed=zeroed, n_zero=n - nz)
            elif d2 < 1e-6:
                for k in range(len(mu)):
                    col = P_o[:, perm2[k]]
                    srt = np.sort(col)
                    if srt[-1] - srt[-2] < 1e-3:
                        res.count("ambiguous_modes_skipped")
                        continue
                    top = want_names[int(np.argmax(col))]
                    if k in assoc:
                        res.count("most_associated_checked")
                        if assoc[k] != top:
                            res.violate("most_associated", "%s: mode #%d (%s) is reported as most associated with %r; own participation factors "
                                        "give %r" % (tag, k + 1, mu[k], assoc[k], top))
                            break
        res.sig = tag
        res.nontrivial = res.obs.get("modes_matched", 0) >= 10
        res.sample = dict(case=spec["case"], operating_point=desc, zeroed=zeroed, states=n, zero_T=n - nz, modes=len(mu),
                          counts=[npos, nzer, nneg], max_distance=res.obs.get("max_mode_distance"))
    return res


def finding_key(w, spec):
    return w.get("mech")
