"""
C02 - Generated numerical code computes exactly the declared model equations.

(a) every function of the generated pycode module of every model (the files ANDES loads from
    disk, generated from this working tree) is called on random argument arrays and compared
    element by element with vf.oracle.expr - an ast tree walker over the declared strings;
(b) live binding: on loaded systems dae.x / dae.y are randomised, the real f_update / g_update /
    fg_to_dae run, and every variable's equation value and every global residual slot is compared
    with the oracle evaluated *by name* on the values the model holds;
(c) regeneration from the unchanged model reproduces the files; (d) a model whose strings changed
    is never executed with the old code.
"""
import os
import subprocess
import sys

import numpy as np

from vf.util import Result, rng_for

PROPERTY = "C02"
LEVEL = "exploration"
TIMEOUT = 900
RULE = ("(a) all shipped models x all generated functions (f, g, *_ia, *_ii, *_svc, sns) x sample points (8 devices each; flags "
        "one-hot / 0-1, config alternatives, dae_t in {-1,0,0.5}, complex services complex, values next to literal breakpoints); "
        "(b) stock cases in power-flow and dynamic phase with randomised states; (c)/(d) regeneration and staleness probes in "
        "fresh processes. Non-trivial: >= 1 expression of the model compared on >= 4 points; distinct = model | case.")
ASSUMPTIONS = ["oracle: Python ast evaluation of the declared strings with numpy double arithmetic; agreement rel 1e-9 + abs 1e-12; "
               "NaN/inf must coincide elementwise; ill-conditioned expressions (cancellation) get an extra allowance of 1e6 x the change of "
               "the oracle value under a 4e-16 relative jitter of its inputs",
               "names declared real are sampled real, services declared complex are sampled complex (SymPy's assumptions)"]
REQUIRED_OBS = {"expressions_compared": 1500, "models_checked": 80, "live_variables_compared": 500, "residual_slots_compared": 500,
                "regeneration_files_compared": 5, "staleness_probes": 1, "md5_sensitivity_probes": 1000,
                "points_with_exact_zeros_compared": 1000}
INCONCLUSIVE_CAP = 0.05

LIVE_CASES = ["kundur/kundur_full.xlsx", "ieee14/ieee14_full.xlsx", "ieee39/ieee39_full.xlsx", "ieee14/ieee14_wt3.xlsx",
              "ieee14/ieee14_pvd1.xlsx", "kundur/kundur_ieeest.xlsx", "kundur/kundur_vsc.xlsx", "kundur/kundur_motor.xlsx",
              "wecc/wecc_full.xlsx", "npcc/npcc.xlsx", "ieee14/ieee14_esd1.xlsx", "ieee14/ieee14_solar.xlsx", "kundur/kundur_wtdta1.xlsx",
              "ieee14/ieee14_dgprct1.xlsx", "kundur/kundur_coi.xlsx", "ieee14/ieee14_hygov.xlsx", "ieee14/ieee14_regcp1.xlsx",
              "kundur/kundur_pmu.xlsx", "ieee14/ieee14_gast.xlsx", "kundur/kundur_st2cut.xlsx", "ieee14/ieee14_exac1.xlsx",
              "ieee14/ieee14_esst4b.xlsx", "ieee14/ieee14_ieeet1.xlsx", "ieee14/ieee14_shuntsw.xlsx", "ieee14/ieee14_fload.json",
              "ieee14/ieee14_zip.json", "kundur/kundur_reg.xlsx"]


def cases(tier, seed):
    from andes.models import file_classes
    out = []
    npts = 4 if tier == "quick" else 48
    for fname, cls_list in file_classes:
        for cn in cls_list:
            out.append(dict(id="model:" + cn, kind="model", model=cn, file=fname, npts=npts, nzero=npts))
    for c in (LIVE_CASES[:10] if tier == "quick" else LIVE_CASES):
        out.append(dict(id="live:" + c, kind="live", case=c, reps=(2 if tier == "quick" else 8)))
    out.append(dict(id="regen", kind="regen", nmodels=(10 if tier == "quick" else 97), timeout=1800))
    out.append(dict(id="stale", kind="stale", timeout=1800))
    return out


def worker_init():
    from vf import au
    au.quiet()


# ------------------------------------------------------------------------------------------------

def jitter(vals, rng):
    """The same inputs moved by a few ulp: the spread of the oracle under it measures the conditioning of the expression."""
    out = {}
    for k, v in vals.items():
        a = np.asarray(v)
        if a.dtype.kind in "fc" and a.size:
            out[k] = a * (1.0 + 4e-16 * rng.choice([-1.0, 1.0], a.shape))
        else:
            out[k] = v
    return out


def agree(a, b, slack=None, defined_only=False):
    """Elementwise agreement incl. NaN/inf classes.  Returns (ok, worst relative difference).
    ``slack``: additional absolute allowance per element (conditioning of the expression).
    ``defined_only``: elements where the declared expression ``b`` itself is undefined (non-finite: a singular point of
    the declared string, where SymPy's algebraically equal form may legitimately differ) are left out."""
    a = np.asarray(a)
    b = np.asarray(b)
    try:
        a, b = np.broadcast_arrays(a, b)
    except ValueError:
        return False, float("inf")
    if defined_only:
        with np.errstate(all="ignore"):
            keep = np.isfinite(b.astype(complex))
            if slack is not None:
                keep = keep & np.isfinite(np.broadcast_to(np.asarray(slack, dtype=float), a.shape))
        if not keep.any():
            return True, 0.0
        a = a[keep]
        b = b[keep]
        if slack is not None:
            slack = np.broadcast_to(np.asarray(slack, dtype=float), keep.shape)[keep]
    if np.iscomplexobj(a) or np.iscomplexobj(b):
        a = a.astype(complex)
        b = b.astype(complex)
    else:
        a = a.astype(float)
        b = b.astype(float)
    nan_a, nan_b = np.isnan(a), np.isnan(b)
    inf_a, inf_b = np.isinf(a), np.isinf(b)
    if not (np.array_equal(nan_a, nan_b) and np.array_equal(inf_a, inf_b)):
        return False, float("nan")
    fin = ~(nan_a | inf_a)
    if inf_a.any() and not np.array_equal(a[inf_a], b[inf_a]):
        return False, float("inf")
    if not fin.any():
        return True, 0.0
    d = np.abs(a[fin] - b[fin])
    scale = 1e-9 * np.maximum(np.abs(a[fin]), np.abs(b[fin])) + 1e-12
    if slack is not None:
        sl = np.broadcast_to(np.asarray(slack, dtype=float), a.shape)[fin]
        scale = scale + np.where(np.isfinite(sl), sl, 0.0)
    worst = float(np.max(d / scale)) if d.size else 0.0
    return worst <= 1.0, worst * 1e-9


def compare(res, spec, label, got, want_str, vals, n, point, defined_only=False):
    from vf.oracle.expr import Evaluator, Unsupported
    ev = Evaluator(vals, spec.subs, n)
    try:
        want = ev.eval(want_str)
    except Unsupported as e:
        res.count("expressions_unsupported_by_oracle")
        res.note("%s.%s: %s" % (spec.name, label, e))
        return
    res.count("points_compared")
    slack = None
    try:
        w2 = Evaluator(jitter(vals, np.random.default_rng(point)), spec.subs, n).eval(want_str)
        with np.errstate(all="ignore"):
            slack = 1e6 * np.abs(np.asarray(w2, dtype=complex) - np.asarray(want, dtype=complex))
    except Exception:
        pass
    ok, worst = agree(got, want, slack, defined_only=defined_only)
    if defined_only:
        res.count("points_with_exact_zeros_compared")
    if not ok:
        g = np.asarray(got)
        w = np.asarray(want)
        res.violate("generated_code_differs", "%s.%s at sample point %d: generated code returns %s, the declared expression %r evaluates to %s" % (
            spec.name, label, point, np.array2string(np.atleast_1d(g).ravel()[:4], precision=8), str(want_str)[:160],
            np.array2string(np.atleast_1d(w).ravel()[:4], precision=8)), model=spec.name, label=label)
        return False
    return True


def run_model(spec_case, res):
    from vf.oracle import modelspec as ms
    from vf.oracle.expr import literal_breakpoints, names_in
    import importlib
    mod = importlib.import_module("andes.models." + spec_case["file"])
    m = ms.instantiate(getattr(mod, spec_case["model"]))
    sp = ms.Spec(m)
    gen = ms.load_generated(sp.name)
    rng = rng_for(spec_case.get("seed", 0), PROPERTY, abs(hash(sp.name)) % 100003)
    n = 8
    res.count("models_checked")
    # md5 of the file must be the md5 of the model as declared now
    if getattr(gen, "md5", None) != m.get_md5():
        res.violate("md5_mismatch", "%s: generated file carries md5 %s, the model's strings hash to %s" % (sp.name, getattr(gen, "md5", None), m.get_md5()))
    # staleness detection rests on that checksum: every declared string that code is generated from must enter it
    base_md5 = m.get_md5()
    for vname, var in m.cache.all_vars.items():
        for attr in ("v_str", "v_iter", "e_str"):
            old = getattr(var, attr, None)
            if old is None:
                continue
            setattr(var, attr, "%s + 0.5" % (old,))
            try:
                res.count("md5_sensitivity_probes")
                if m.get_md5() == base_md5:
                    res.violate("md5_blind_to_string", "%s: changing %s of variable %s (%r -> %r) leaves the model checksum unchanged: code generated "
                                "from the old string would be accepted as current" % (sp.name, attr, vname, old, getattr(var, attr)),
                                model=sp.name, attr=attr)
            finally:
                setattr(var, attr, old)
    for sname, svc in m.services.items():
        old = getattr(svc, "v_str", None)
        if old is None:
            continue
        svc.v_str = "%s + 0.5" % (old,)
        try:
            res.count("md5_sensitivity_probes")
            if m.get_md5() == base_md5:
                res.violate("md5_blind_to_string", "%s: changing v_str of service %s leaves the model checksum unchanged" % (sp.name, sname),
                            model=sp.name, attr="service.v_str")
        finally:
            svc.v_str = old
    if m.get_md5() != base_md5:
        res.inconc("md5 probe did not restore the model")
        return
    all_strs = [s for s in sp.f_str + sp.g_str if s] + list(sp.services.values())
    bps = sorted(set(b for s in all_strs for b in literal_breakpoints(s)))
    groups = []   # (label, function, arg names, [(sublabel, declared string)], shape kind)
    if callable(getattr(gen, "f_update", None)):
        groups.append(("f", gen.f_update, gen.f_args, list(zip(sp.states, [s if s is not None else "0" for s in sp.f_str])), "tuple"))
    if callable(getattr(gen, "g_update", None)):
        groups.append(("g", gen.g_update, gen.g_args, list(zip(sp.algebs, [s if s is not None else "0" for s in sp.g_str])), "tuple"))
    for name, args in gen.ia_args.items():
        groups.append(("ia", getattr(gen, name + "_ia"), args, [(name, sp.all_vars[name].v_str)], "single"))
    for name, args in gen.ii_args.items():
        items = [it for it in gen.init_seq if isinstance(it, list) and "_".join(it) == name]
        vars_ = items[0] if items else [name]
        groups.append(("ii", getattr(gen, name + "_ii"), args, [(v, sp.all_vars[v].v_iter) for v in vars_], "matrix"))
    for name, args in gen.s_args.items():
        groups.append(("svc", getattr(gen, name + "_svc"), args, [(name, sp.services[name])], "single"))
    if callable(getattr(gen, "sns_update", None)):
        groups.append(("sns", gen.sns_update, gen.sns_args, [(nm, sp.services[nm]) for nm in sp.nonseq_services], "tuple"))
    nexpr = 0
    for label, fn, args, items, kind in groups:
        bad = False
        for point in range(spec_case["npts"] + spec_case.get("nzero", 0)):
            vals = sp.draw_args(rng, args, n, breakpoints=bps, dae_t=[-1.0, 0.0, 0.5][point % 3])
            zero_rich = point >= spec_case["npts"]
            if zero_rich:
                # exact zeros in the inputs (zero denominators of guarded divisions, zero gains / time constants ...)
                for a_ in args:
                    v_ = np.asarray(vals[a_])
                    if not a_.startswith("__") and v_.dtype.kind in "fc" and v_.ndim == 1 and v_.size == n:
                        v_ = v_.copy()
                        v_[rng.random(n) < 0.2] = 0
                        vals[a_] = v_
            try:
                with np.errstate(all="ignore"):
                    ret = fn(*[vals[a] for a in args])
            except Exception as e:
                res.violate("generated_code_raises", "%s.%s raised %r" % (sp.name, label, e), model=sp.name)
                bad = True
                break
            # arguments the oracle needs beyond the generated argument list (e.g. a name SymPy simplified away)
            if kind == "single":
                outs = [ret]
            elif kind == "matrix":
                # lambdify of a k x 1 SymPy Matrix: array of shape (k, 1, n), or an object array when entries are scalars
                try:
                    arr = np.asarray(ret)
                except ValueError:
                    arr = np.asarray(ret, dtype=object)
                if arr.dtype == object:
                    outs = [arr[k][0] for k in range(arr.shape[0])]
                else:
                    outs = [arr[k].reshape(-1) if arr[k].size > 1 else arr[k].reshape(()) for k in range(arr.shape[0])]
            else:
                outs = list(ret)
            if len(outs) != len(items):
                res.violate("generated_tuple_length", "%s.%s returns %d values for %d declared equations" % (sp.name, label, len(outs), len(items)))
                bad = True
                break
            for (sub, s), out in zip(items, outs):
                need = names_in(s, sp.subs) - set(vals)
                if need:
                    extra = sp.draw_args(rng, sorted(need), n, breakpoints=bps)
                    vals2 = dict(vals)
                    vals2.update(extra)
                else:
                    vals2 = vals
                r = compare(res, sp, "%s[%s]" % (label, sub), out, s, vals2, n, point, defined_only=zero_rich)
                if r is False:
                    bad = True
            if bad:
                break
        nexpr += len(items)
    res.count("expressions_compared", nexpr)
    res.sig = "model:" + sp.name
    res.nontrivial = nexpr >= 1
    res.sample = dict(model=sp.name, functions=len(groups), expressions=nexpr, breakpoints=bps[:6])


# ------------------------------------------------------------------------------------------------

def oracle_e(res, ss, mdl, models, inp_f=None):
    """Per-variable equation values by name from mdl._input (the values the model holds).
    ``inp_f``: the inputs as they were when the differential equations were evaluated (anti-windup limiters move a pegged
    state's value afterwards, before the algebraic equations are evaluated)."""
    from vf.oracle import modelspec as ms
    from vf.oracle.expr import Evaluator, Unsupported
    sp = ms.Spec(mdl)
    inp = dict(mdl.get_inputs())
    ev_g = Evaluator(inp, sp.subs, mdl.n)
    ev2_g = Evaluator(jitter(inp, np.random.default_rng(1)), sp.subs, mdl.n)
    if inp_f is not None:
        ev_f = Evaluator(inp_f, sp.subs, mdl.n)
        ev2_f = Evaluator(jitter(inp_f, np.random.default_rng(1)), sp.subs, mdl.n)
    else:
        ev_f, ev2_f = ev_g, ev2_g
    out = {}
    slack = {}
    for name, var in list(mdl.cache.states_and_ext.items()) + list(mdl.cache.algebs_and_ext.items()):
        s = var.e_str
        ev, ev2 = (ev_f, ev2_f) if var.e_code == "f" else (ev_g, ev2_g)
        try:
            v = ev.eval(s) if s is not None else 0.0
            v2 = ev2.eval(s) if s is not None else 0.0
        except Unsupported:
            res.count("expressions_unsupported_by_oracle")
            return None
        nv = int(np.size(var.v)) if np.size(var.v) else mdl.n      # e.g. COI borrows one variable per generator, not per COI device
        if np.ndim(v) and np.size(v) not in (1, nv):
            nv = int(np.size(v))
        out[name] = np.broadcast_to(np.asarray(v, dtype=float), (nv,)).copy() if not np.iscomplexobj(v) else np.real(np.broadcast_to(v, (nv,)))
        with np.errstate(all="ignore"):
            slack[name] = 1e6 * np.abs(np.broadcast_to(np.asarray(v2, dtype=complex), (nv,)) - np.broadcast_to(np.asarray(v, dtype=complex), (nv,)))
    out["__slack__"] = slack
    return out


def run_live(spec, res):
    from vf import au
    rng = rng_for(spec.get("seed", 0), PROPERTY, 7, abs(hash(spec["case"])) % 9973)
    ss = au.load(spec["case"])
    if not ss.PFlow.run():
        res.inconc("power flow failed")
        return
    for phase in ("pflow", "tds"):
        if phase == "tds":
            ss.TDS.config.no_tqdm = 1
            ss.TDS.init()
            models = ss.exist.pflow_tds
        else:
            models = ss.exist.pflow
        for rep in range(spec["reps"]):
            dae = ss.dae
            x0, y0 = dae.x.copy(), dae.y.copy()
            dae.x[:] = x0 * (1 + 0.05 * rng.standard_normal(dae.n)) + 0.01 * rng.standard_normal(dae.n)
            dae.y[:] = y0 * (1 + 0.05 * rng.standard_normal(dae.m)) + 0.01 * rng.standard_normal(dae.m)
            ss.vars_to_models()
            dae.clear_fg()
            ss.s_update_var(models)
            ss.l_update_var(models, niter=0, err=1.0)
            ss.f_update(models)
            # what the differential equations have just been evaluated on (limiters may move pegged states next)
            inputs_at_f = {}
            for mname, mdl in models.items():
                if mdl.n and mdl.in_use:
                    inputs_at_f[mname] = {k: (np.array(v, copy=True) if isinstance(v, np.ndarray) else v) for k, v in mdl.get_inputs().items()}
            ss.l_update_eq(models, niter=0)
            ss.g_update(models)
            expected_f = np.zeros(dae.n)
            expected_g = np.zeros(dae.m)
            slack_f = np.zeros(dae.n)
            slack_g = np.zeros(dae.m)
            setters = []
            usable = True
            for mname, mdl in models.items():
                if mdl.n == 0 or not mdl.in_use:
                    continue
                numeric = bool(mdl.flags.f_num or mdl.flags.g_num) or any(getattr(b.flags, k, False) for b in mdl.blocks.values() for k in ("f_num", "g_num"))
                if numeric:
                    res.count("models_with_numeric_code_excluded")
                    usable = False          # their contribution to the global residual is not declared as a string
                    continue
                # anti-windup / rate limiters rewrite state.e after the generated code ran
                rewritten = set()
                for d in mdl.discrete.values():
                    if d.has_check_eq:
                        st = getattr(d, "state", None) or getattr(d, "u", None)
                        if st is not None:
                            rewritten.add(st.name)
                # the arrays the generated functions receive must be the live arrays of the variables
                inp_now = mdl.get_inputs()
                for vn, var in mdl.cache.all_vars.items():
                    if var.n and vn in inp_now and len(np.atleast_1d(var.v)) == mdl.n:
                        res.count("input_bindings_checked")
                        if not np.shares_memory(inp_now[vn], var.v) and not np.array_equal(inp_now[vn], var.v):
                            res.violate("stale_model_input", "%s %s phase: the function inputs of %s hold %s for variable %s whose live value is %s "
                                        "(array not rebound after re-addressing)" % (spec["case"], phase, mname, np.array2string(np.asarray(inp_now[vn])[:3], precision=6),
                                                                                      vn, np.array2string(np.asarray(var.v)[:3], precision=6)), model=mname, var=vn)
                            break
                o = oracle_e(res, ss, mdl, models, inp_f=inputs_at_f.get(mname))
                if o is None:
                    usable = False
                    continue
                for name, var in list(mdl.cache.states_and_ext.items()) + list(mdl.cache.algebs_and_ext.items()):
                    if var.e_str is None and len(np.atleast_1d(var.e)) != mdl.n:
                        continue       # a borrowed variable without own equation contributes nothing
                    got = np.array(var.e, dtype=float)
                    want = o[name]
                    if name in rewritten:
                        res.count("limited_states_excluded")
                        want = got.copy()
                    else:
                        res.count("live_variables_compared")
                        ok, worst = agree(got, want, o["__slack__"].get(name))
                        if not ok:
                            res.violate("live_binding", "%s %s phase: %s.%s equation values %s differ from the declared expression evaluated "
                                        "on the model's own inputs %s" % (spec["case"], phase, mname, name,
                                                                          np.array2string(got[:4], precision=8), np.array2string(want[:4], precision=8)),
                                        model=mname, var=name)
                            usable = False
                    tgt = expected_f if var.e_code == "f" else expected_g
                    addr = np.atleast_1d(var.a if not hasattr(var, "r") or var.e_code in ("f", "g") else var.a).astype(int)
                    if len(addr) != len(want):
                        continue
                    sl = np.nan_to_num(np.asarray(o["__slack__"].get(name, 0.0), dtype=float), nan=0.0, posinf=0.0)
                    np.add.at(slack_f if var.e_code == "f" else slack_g, addr, np.broadcast_to(sl, (len(addr),)))
                    if getattr(var, "e_setter", False):
                        setters.append((tgt, addr, want))
                    else:
                        np.add.at(tgt, addr, want)
            for tgt, addr, want in setters:
                tgt[addr] = want
            ss.fg_to_dae()
            if usable:
                gexp = expected_g.copy()
                if ss.Bus.n_islanded_buses:
                    gexp[ss.Bus.islanded_a] = 0
                    gexp[ss.Bus.islanded_v] = 0
                for nm, got, want, slk in (("f", dae.f, expected_f, slack_f), ("g", dae.g, gexp, slack_g)):
                    res.count("residual_slots_compared", len(got))
                    ok, worst = agree(got, want, slk)
                    if not ok:
                        d = np.abs(np.asarray(got) - want)
                        j = int(np.nanargmax(d))
                        names = dae.x_name if nm == "f" else dae.y_name
                        res.violate("residual_assembly", "%s %s phase: assembled dae.%s[%d] (%s) = %r, sum of the declared contributions = %r" % (
                            spec["case"], phase, nm, j, names[j] if j < len(names) else "?", float(got[j]), float(want[j])), slot=j)
            dae.x[:] = x0
            dae.y[:] = y0
            ss.vars_to_models()
    res.sig = "live:" + spec["case"]
    res.nontrivial = res.obs.get("live_variables_compared", 0) >= 20
    res.sample = dict(case=spec["case"], variables=res.obs.get("live_variables_compared", 0), slots=res.obs.get("residual_slots_compared", 0),
                      excluded_numeric=res.obs.get("models_with_numeric_code_excluded", 0))


# ------------------------------------------------------------------------------------------------

REGEN = r"""
import sys, os
import andes
andes.config_logger(stream_level=50)
names = sys.argv[2].split(',')
ss = andes.System(no_undill=True, default_config=True, options={'pycode_path': sys.argv[1]})
ss.prepare(quick=True, models=names, nomp=True)
print('DONE')
"""


def run_regen(spec, res):
    """Regenerating from the unchanged model gives the files that are loaded (byte-identical)."""
    from vf import au
    from andes.models import file_classes
    rng = rng_for(spec.get("seed", 0), PROPERTY, 11)
    names = [c for _, cl in file_classes for c in cl]
    pick = list(rng.choice(names, size=min(spec["nmodels"], len(names)), replace=False))
    home_py = os.path.join(os.path.expanduser("~"), ".andes", "pycode")
    with au.Scratch("c02") as sd:
        out = os.path.join(sd, "pycode")
        r = subprocess.run([sys.executable, "-c", REGEN, out, ",".join(pick)], capture_output=True, text=True, timeout=1500)
        if "DONE" not in r.stdout:
            res.inconc("regeneration subprocess failed: " + r.stderr[-300:])
            return
        for nm in pick:
            a = open(os.path.join(home_py, nm + ".py")).read()
            b = open(os.path.join(out, nm + ".py")).read()
            res.count("regeneration_files_compared")
            if a != b:
                # not byte-identical: must at least be functionally identical (decided by the model cases on the loaded file)
                la, lb = a.splitlines(), b.splitlines()
                k = next((i for i in range(min(len(la), len(lb))) if la[i] != lb[i]), -1)
                res.violate("regeneration_differs", "%s: regenerated file differs from the loaded one at line %d: %r vs %r" % (
                    nm, k, la[k][:120] if k >= 0 else None, lb[k][:120] if k >= 0 else None), model=nm)
    res.sig = "regen"
    res.nontrivial = True
    res.sample = dict(models=pick[:8], compared=res.obs.get("regeneration_files_compared", 0))


STALE = r"""
import sys, os, json, shutil
import numpy as np
import andes
andes.config_logger(stream_level=50)
mode = sys.argv[1]
from andes.models.shunt import shunt as S
from andes.models.governor import tgov1 as T
extra = {}
if mode in ('changed_string', 'changed_no_autogen'):
    orig = S.ShuntModel.__init__
    def patched(self, system=None, config=None):
        orig(self, system, config)
        self.a.e_str = 'u * v**2 * g + 0.125 * u * v'
    S.ShuntModel.__init__ = patched
    orig2 = T.TGOV1Model.__init__
    def patched2(self, system, config):
        orig2(self, system, config)
        self.pout.e_str = 'ue * (LL_y - Dt * wd) - pout + 0.0625'
    T.TGOV1Model.__init__ = patched2
if mode == 'tampered_md5':
    p = os.path.join(os.path.expanduser('~'), '.andes', 'pycode', 'Shunt.py')
    s = open(p).read().replace('md5 = "', 'md5 = "00')
    s = s.replace('g*u*v**2', 'g*u*v**2*0.5')
    open(p, 'w').write(s)
try:
    ss = andes.System(default_config=True, autogen_stale=(mode != 'changed_no_autogen'))
except Exception as e:
    print('RESULT' + json.dumps(dict(mode=mode, raised=repr(e)[:200])))
    sys.exit(0)
v = np.array([1.1, 0.9]); g = np.array([0.2, 0.3]); b = np.array([0.1, 0.1]); u = np.array([1.0, 1.0])
args = dict(v=v, g=g, b=b, u=u)
ret = ss.Shunt.calls.g(*[args[a] for a in ss.Shunt.calls.g_args])
want_new = u * v**2 * g + 0.125 * u * v
want_old = u * v**2 * g
out = dict(mode=mode, got=np.asarray(ret[0]).tolist(), want_new=want_new.tolist(), want_old=want_old.tolist(),
           md5_calls=ss.Shunt.calls.md5, md5_model=ss.Shunt.get_md5())
print('RESULT' + json.dumps(out))
"""


def run_stale(spec, res):
    """A model whose strings changed (or whose file does not carry the model's checksum) is regenerated or refused."""
    import json
    import shutil
    from vf import au
    home = os.path.expanduser("~")
    for mode in ("changed_string", "tampered_md5", "changed_no_autogen"):
        with au.Scratch("c02") as sd:
            # a private copy of the generated code: these probes rewrite it
            shutil.copytree(os.path.join(home, ".andes"), os.path.join(sd, ".andes"))
            env = dict(os.environ, HOME=sd)
            r = subprocess.run([sys.executable, "-c", STALE, mode], capture_output=True, text=True, timeout=1500, env=env)
            out = None
            for l in r.stdout.splitlines():
                if l.startswith("RESULT"):
                    out = json.loads(l[6:])
            res.count("staleness_probes")
            if out is None:
                res.inconc("staleness probe %s failed: %s" % (mode, r.stderr[-300:]))
                continue
            if "raised" in out:
                res.count("stale_code_refused_loudly")
                continue
            got = np.array(out["got"])
            if mode in ("changed_string",):
                if not np.allclose(got, out["want_new"], rtol=1e-12):
                    res.violate("stale_code_used", "model string changed but the executed code returns %s (old string gives %s, new %s)" % (
                        got, out["want_old"], out["want_new"]), mode=mode)
            elif mode == "tampered_md5":
                if not np.allclose(got, out["want_old"], rtol=1e-12):
                    res.violate("stale_code_used", "a generated file whose checksum does not match the model was executed as is: %s (model: %s)" % (
                        got, out["want_old"]), mode=mode)
            else:
                # autogen_stale=False is documented to skip regeneration: then the mismatch must be visible (md5 differs)
                if np.allclose(got, out["want_old"], rtol=1e-12) and out["md5_calls"] == out["md5_model"]:
                    res.violate("stale_code_silent", "old code is executed and the checksums claim it is current", mode=mode)
    res.sig = "stale"
    res.nontrivial = True
    res.sample = dict(probes=res.obs.get("staleness_probes", 0), refused=res.obs.get("stale_code_refused_loudly", 0))


def run_case(spec):
    res = Result(spec)
    {"model": run_model, "live": run_live, "regen": run_regen, "stale": run_stale}[spec["kind"]](spec, res)
    return res


def finding_key(w, spec):
    return w.get("mech")
