"""
C14 - Resumed and snapshot-restored simulations equal the uninterrupted run.

Interruption points are enumerated per case (around every event: te -/+ {2e-4, 1e-4, 5e-5}, te
itself; grid points; off-grid points; a tiny time; up to 5 successive interruptions) and each is
continued (a) by extending tf, (b) through save_ss/load_ss in-process, (c) through a snapshot loaded
in a fresh subprocess.  Oracle: the uninterrupted run with a Richardson (h/2) error estimate; the
event log / status fold across the boundary; the time axis.
"""
import json
import os
import subprocess
import sys

import numpy as np

from vf.util import Result, rng_for

PROPERTY = "C14"
LEVEL = "fault_enumeration"
TIMEOUT = 1200
RULE = ("per base case (kundur_full, ieee14_fault, ieee14_linetrip, pjm5bus, wecc_gencls, kundur_aw; own events + generated "
        "Toggle/Alter) the interruption set {te-2e-4, te-1e-4, te-5e-5, te, te+5e-5, te+1e-4, te+2e-4 for every event time te} + "
        "grid points + random off-grid points + 1e-3 + sequences of 2-5 interruptions, each under the continuation modes "
        "extend-tf / snapshot in-process / snapshot in a fresh process; plus reset()+PF. Non-trivial: the interruption lies "
        "strictly inside (0, tf) and the continued run completed; distinct = (case, interruption times, mode).")
ASSUMPTIONS = ["'equal up to discretisation error' := max |x_split(tf) - x_single(tf)| <= E + 10*tol with E = max |x_h(tf) - x_{h/2}(tf)|",
               "monitors are not installed on systems that are pickled; there the event history is read from the final status fold "
               "and the time axis"]
REQUIRED_OBS = {"interruptions": 60, "snapshot_continuations": 5, "around_event_interruptions": 20, "fresh_process_continuations": 1,
                "reset_checks": 2}

BASES = [("kundur/kundur_full.xlsx", 3.0), ("ieee14/ieee14_fault.xlsx", 2.0), ("ieee14/ieee14_linetrip.xlsx", 2.0),
         ("5bus/pjm5bus.xlsx", 3.0), ("wecc/wecc_gencls.xlsx", 2.0), ("kundur/kundur_aw.xlsx", 3.0)]


def cases(tier, seed):
    out = []
    bases = BASES[:4] if tier == "quick" else BASES
    nchunk = 6 if tier == "quick" else 12
    for b, (case, tf) in enumerate(bases):
        for c in range(nchunk):
            out.append(dict(id="plan:%s:%d" % (case, c), kind="plan", case=case, tf=tf, base=b, nrand=(2 if tier == "quick" else 30),
                            fresh=(1 if tier == "quick" else 6), chunk=c, nchunk=nchunk, timeout=1800))
    for case in (RESET_CASES[:6] if tier == "quick" else RESET_CASES):
        out.append(dict(id="reset:%s" % case, kind="reset", case=case))
    return out


def worker_init():
    from vf import au
    au.quiet()


def make_system(case, sd, tstep, tf, tol=None, extra_events=None):
    from vf import au
    t = dict(tstep=repr(tstep), tf=repr(tf), no_tqdm=1, criteria=0)
    if tol:
        t["tol"] = repr(tol)
    rc = au.write_rc(os.path.join(sd, "c14_%d.rc" % np.random.randint(1 << 30)), {"TDS": t, "PFlow": dict(report=0)})
    ss = au.load(case, setup=False, config_path=rc)
    for e in (extra_events or []):
        ss.add(e[0], dict(e[1]))
    ss.setup()
    ss.PFlow.run()
    return ss


def run_to(ss, tfs, inspect=False):
    ok = True
    for t in tfs:
        ss.TDS.config.tf = t
        ok = ss.TDS.run()
        if not ok:
            break
        if inspect:
            # a user looking at the intermediate result (arrays and a query by variable) before extending the run
            _ = np.array(ss.dae.ts.t), np.array(ss.dae.ts.x), np.array(ss.dae.ts.y), np.array(ss.dae.ts.xy)
            ss.dae.ts.get_data(ss.Bus.v)
    return ok


def stored_series_consistent(res, ss, tag):
    """The stored series of the system as a whole: one row per stamp, the last row is the final state."""
    ts = ss.dae.ts
    t, X, Y = np.array(ts.t), np.array(ts.x), np.array(ts.y)
    res.count("stored_series_checked")
    if not (len(t) == X.shape[0] == Y.shape[0]):
        res.violate("stored_series_inconsistent", "%s: %d stamps, %d rows of x, %d rows of y" % (tag, len(t), X.shape[0], Y.shape[0]), tag=tag)
        return
    if len(t) and ss.Output.n == 0:
        if float(t[-1]) != float(ss.dae.t) or not (np.array_equal(X[-1], ss.dae.x) and np.array_equal(Y[-1], ss.dae.y)):
            res.violate("stored_series_stale", "%s: the stored series ends at t=%r, the simulation is at t=%r; the last stored row %s the final state" % (
                tag, float(t[-1]), float(ss.dae.t), "is" if (np.array_equal(X[-1], ss.dae.x) and np.array_equal(Y[-1], ss.dae.y)) else "is not"), tag=tag)
        gd = ts.get_data(ss.Bus.v)
        if gd is None or gd.shape[0] != len(t):
            res.violate("stored_series_stale", "%s: get_data(Bus.v) returns %s rows for %d stamps" % (tag, None if gd is None else gd.shape[0], len(t)), tag=tag)


def final_state(ss):
    return np.array(ss.dae.x).copy(), np.array(ss.dae.y).copy(), np.array(ss.dae.ts.t).copy()


def status_fold(ss):
    out = {}
    for mname in ("Line", "PQ", "GENROU", "GENCLS"):
        m = getattr(ss, mname, None)
        if m is not None and m.n:
            out[mname] = np.array(m.u.v).tolist()
    if ss.Fault.n:
        out["Fault.uf"] = np.array(ss.Fault.uf.v).tolist()
    return out


CHILD = r"""
import sys, json
import numpy as np
from vf import au
from andes.utils.snapshot import load_ss
au.quiet()
ss = load_ss(sys.argv[1])
ss.TDS.config.tf = float(sys.argv[2])
ss.TDS.config.no_tqdm = 1
ok = ss.TDS.run()
from vf.checks.c14 import status_fold
np.savez(sys.argv[3], x=np.array(ss.dae.x), y=np.array(ss.dae.y), t=np.array(ss.dae.ts.t), ok=bool(ok))
print('FOLD' + json.dumps(status_fold(ss)))
"""


def check_axis(res, t, tf, tstep, tag):
    if len(t) == 0:
        res.violate("time_axis_empty", "%s: no stored stamps" % tag)
        return
    d = np.diff(t)
    if np.any(d <= 0):
        i = int(np.where(d <= 0)[0][0])
        res.violate("time_axis_duplicate", "%s: time stamps not strictly increasing at %r, %r" % (tag, float(t[i]), float(t[i + 1])), tag=tag)
    if t[0] != 0.0:
        res.violate("time_axis_start", "%s: first stamp is %r" % (tag, float(t[0])))
    if t[-1] != tf:
        res.violate("time_axis_end", "%s: last stamp %r != tf %r" % (tag, float(t[-1]), tf), tag=tag)
    if len(d) and d.max() > tstep * (1 + 1e-9):
        i = int(np.argmax(d))
        res.violate("time_axis_gap", "%s: gap of %r between stamps %r and %r exceeds the step %r" % (tag, float(d[i]), float(t[i]), float(t[i + 1]), tstep),
                    tag=tag)


def run_plan(spec, res):
    from vf import au
    from andes.utils.snapshot import load_ss, save_ss
    from vf.monitor.events import EventLog
    rng = rng_for(spec.get("seed", 0), PROPERTY, spec["base"])
    case, tf = spec["case"], spec["tf"]
    tstep = 1 / 30
    with au.Scratch("c14") as sd:
        # generated extra events on top of the case's own
        probe = make_system(case, sd, tstep, tf)
        extra = []
        if probe.Line.n > 3:
            li = probe.Line.idx.v[int(rng.integers(0, probe.Line.n))]
            t1 = float(np.round(rng.uniform(0.3, tf * 0.5), 3))
            extra.append(("Toggle", dict(model="Line", dev=li, t=t1)))
            extra.append(("Toggle", dict(model="Line", dev=li, t=float(np.round(t1 + 0.15, 3)))))
        if probe.PQ.n:
            extra.append(("Alter", dict(model="PQ", dev=probe.PQ.idx.v[0], src="Ppf", attr="v", method="*", amount=1.05,
                                        t=float(np.round(rng.uniform(0.2, tf * 0.9), 4)))))
        ref = make_system(case, sd, tstep, tf, extra_events=extra)
        # event times straight from the event devices (own + generated)
        centres = set()
        for mname, fields in (("Toggle", ("t",)), ("Alter", ("t",)), ("Fault", ("tf", "tc"))):
            m = getattr(ref, mname)
            for f in fields:
                for k in range(m.n):
                    te = float(getattr(m, f).v[k])
                    if m.u.v[k] == 1 and 0 < te < tf:
                        centres.add(te)
        centres = sorted(centres)
        if not run_to(ref, [tf]):
            res.inconc("reference run failed")
            return
        xr, yr, tr = final_state(ref)
        fold_ref = status_fold(ref)
        tol = float(ref.TDS.config.tol)
        half = make_system(case, sd, tstep / 2, tf, extra_events=extra)
        if not run_to(half, [tf]):
            res.inconc("h/2 run failed")
            return
        xh, yh, _ = final_state(half)
        E = float(max(np.max(np.abs(xr - xh)), np.max(np.abs(yr - yh))))
        bound = 1.0 * E + 10 * tol
        res.maxobs("max_richardson_estimate", E)

        # ---- interruption plan
        plans = []
        for te in (centres if spec.get("tier") == "thorough" else centres[:3]):
            for d in (-2e-4, -1e-4, -5e-5, 0.0, 5e-5, 1e-4, 2e-4):
                plans.append(([float(te + d)], "around-event"))
        for k in (1, 7, 30):
            if k * tstep < tf:
                plans.append(([k * tstep], "grid"))
        plans.append(([1e-3], "tiny"))
        for _ in range(spec["nrand"]):
            plans.append(([float(rng.uniform(0.01, tf - 0.01))], "off-grid"))
        for n in (2, 3, 5):
            plans.append((sorted(float(np.round(rng.uniform(0.05, tf - 0.05), int(rng.integers(1, 5)))) for _ in range(n)), "sequence"))
        if centres:
            te = centres[0]
            plans.append(([te - 1e-4, te, te + 1e-4], "sequence-on-event"))
        modes = ["extend", "extend", "snapshot"]
        fresh_left = spec["fresh"]
        for pi, (cuts, kind) in enumerate(plans):
            if pi % spec.get("nchunk", 1) != spec.get("chunk", 0):
                continue          # the plan of one case is spread over several workers
            cuts = [c for c in cuts if 0 < c < tf]
            if not cuts:
                continue
            mode = modes[pi % len(modes)]
            if kind in ("around-event", "sequence-on-event") and fresh_left > 0 and pi % 7 == 3:
                mode = "fresh"
                fresh_left -= 1
            tag = "%s cuts=%s mode=%s" % (case, ["%.6g" % c for c in cuts], mode)
            res.count("interruptions")
            if kind.startswith("around") or kind == "sequence-on-event":
                res.count("around_event_interruptions")
            ss = make_system(case, sd, tstep, tf, extra_events=extra)
            log = None
            try:
                if mode == "extend":
                    log = EventLog(ss)
                    ok = run_to(ss, cuts + [tf], inspect=(pi % 2 == 0))
                    log.close()
                    if pi % 2 == 0:
                        res.count("continuations_with_inspection_between_segments")
                    xs, ys, ts_ = final_state(ss)
                    stored_series_consistent(res, ss, tag)
                    fold = status_fold(ss)
                elif mode == "snapshot":
                    ok = True
                    for c in cuts:
                        ok = run_to(ss, [c])
                        if not ok:
                            break
                        p = os.path.join(sd, "snap_%d.pkl" % pi)
                        save_ss(p, ss)
                        ss = load_ss(p)
                        os.remove(p)
                        ss.TDS.config.no_tqdm = 1
                        res.count("snapshot_continuations")
                    if ok:
                        ok = run_to(ss, [tf])
                    xs, ys, ts_ = final_state(ss)
                    fold = status_fold(ss)
                else:
                    ok = run_to(ss, cuts)
                    p = os.path.join(sd, "snapf_%d.pkl" % pi)
                    outp = os.path.join(sd, "outf_%d.npz" % pi)
                    save_ss(p, ss)
                    r = subprocess.run([sys.executable, "-c", CHILD, p, repr(tf), outp], capture_output=True, text=True, timeout=600)
                    res.count("fresh_process_continuations")
                    res.count("snapshot_continuations")
                    if not os.path.isfile(outp):
                        res.violate("fresh_process_failed", "%s: continuing the snapshot in a fresh process failed: %s" % (tag, r.stderr[-300:]), tag=tag)
                        continue
                    z = np.load(outp)
                    xs, ys, ts_, ok = z["x"], z["y"], z["t"], bool(z["ok"])
                    fold = None
                    for l in r.stdout.splitlines():
                        if l.startswith("FOLD"):
                            fold = json.loads(l[4:])
                    os.remove(p)
            except Exception as e:
                if log is not None:
                    log.close()
                res.violate("continuation_raises", "%s raised %r" % (tag, e), tag=tag, mode=mode)
                continue
            if not ok:
                res.violate("continuation_failed", "%s: the continued run did not complete (uninterrupted run does)" % tag, tag=tag, mode=mode)
                continue
            res.count("continuations_completed")
            dx = float(max(np.max(np.abs(xs - xr)), np.max(np.abs(ys - yr)))) if xs.shape == xr.shape else float("inf")
            res.maxobs("max_final_difference", dx)
            res.maxobs("max_final_difference_over_bound", dx / bound)
            if dx == 0.0:
                res.count("bit_identical_continuations")
            if dx > bound:
                res.violate("trajectory_differs", "%s: final state differs from the uninterrupted run by %.3e > E+10*tol = %.3e (E=%.2e)" % (
                    tag, dx, bound, E), tag=tag, mode=mode, kind=kind)
            if fold is not None and fold != fold_ref:
                diff = [k for k in fold_ref if fold.get(k) != fold_ref[k]]
                res.violate("events_lost_or_repeated", "%s: final device status differs from the uninterrupted run in %s" % (tag, diff), tag=tag, mode=mode)
            # resumed runs continue from the cut with the nominal step: stamps of one segment never exceed tstep
            check_axis(res, ts_, tf, tstep, tag)
            for c in cuts:
                if c not in ts_:
                    res.violate("cut_not_on_axis", "%s: the interruption time %r is not a stored stamp" % (tag, c), tag=tag)
            if log is not None:
                # every event exactly once across the boundaries
                seen = {}
                for f in log.firings:
                    for i in f["idx"]:
                        seen[(f["model"], f["timer"], i)] = seen.get((f["model"], f["timer"], i), 0) + 1
                rep = [k for k, v in seen.items() if v > 1]
                if rep:
                    res.violate("events_lost_or_repeated", "%s: events dispatched more than once: %s" % (tag, rep[:3]), tag=tag, mode=mode)
                res.count("event_firings_observed", len(log.firings))
        res.sig = "plan:%s:%s" % (case, spec.get("chunk", 0))
        res.nontrivial = res.obs.get("continuations_completed", 0) >= 5
        res.sample = dict(case=case, tf=tf, event_times=centres, plans=len(plans), richardson_E=E, bound=bound,
                          worst_over_bound=res.obs.get("max_final_difference_over_bound"), bit_identical=res.obs.get("bit_identical_continuations", 0))


RESET_CASES = ["ieee14/ieee14_conn.xlsx",      # a bus out of service whose devices are given as in service: status propagation must be redone
               "kundur/kundur_full.xlsx", "ieee14/ieee14_fault.xlsx", "ieee14/ieee14.raw", "ieee39/ieee39_full.xlsx", "5bus/pjm5bus.xlsx",
               "wecc/wecc_full.xlsx", "npcc/npcc.xlsx", "matpower/case118.m", "ieee14/ieee14_pvd1.xlsx", "kundur/kundur_vsc.xlsx"]


def run_reset(spec, res):
    """Histories of PFlow.run() and System.reset() on one System (before any dynamic initialisation: reset() is documented
    to refuse afterwards).  Every power flow of the history must reproduce the first solution."""
    from vf import au
    rng = rng_for(spec.get("seed", 0), PROPERTY, 9, abs(hash(spec["case"])) % 9973)
    ss = au.load(spec["case"])
    ok1 = ss.PFlow.run()
    if not ok1:
        res.inconc("first power flow failed")
        return
    v1 = np.concatenate([ss.Bus.v.v, ss.Bus.a.v]).copy()
    n1 = int(ss.PFlow.niter)
    hist = ["pf"]
    for step in range(int(rng.integers(2, 6))):
        op = ["reset", "reset", "pf", "reset+reset"][int(rng.integers(0, 4))]
        if op.startswith("reset"):
            for _ in range(op.count("reset")):
                ss.reset()
                res.count("resets")
            hist.append(op)
            if float(ss.dae.t) >= 0:
                res.count("resets_leaving_nonnegative_time")      # observation only; the verdict is the solution below
        ok2 = ss.PFlow.run()
        hist.append("pf")
        v2 = np.concatenate([ss.Bus.v.v, ss.Bus.a.v])
        res.count("reset_checks")
        d = float(np.max(np.abs(v1 - v2))) if ok2 and v1.shape == v2.shape else float("nan")
        res.maxobs("max_pf_difference_after_reset", d if np.isfinite(d) else 1e9)
        if not ok2 or not d <= 1e-10:
            res.violate("reset_changes_pf", "%s: history %s: the power flow differs from the first solution by %.3e (converged %s, "
                        "iterations %d vs %d)" % (spec["case"], hist, d, ok2, int(ss.PFlow.niter), n1))
            break
    res.sig = "reset:" + spec["case"]
    res.nontrivial = res.obs.get("resets", 0) >= 1
    res.sample = dict(case=spec["case"], history=hist, difference=res.obs.get("max_pf_difference_after_reset"))


def run_case(spec):
    res = Result(spec)
    {"plan": run_plan, "reset": run_reset}[spec["kind"]](spec, res)
    return res


def finding_key(w, spec):
    return w.get("mech")
