"""
C20 - The configuration in effect is the one the user supplied.

Every configurable field of the System, the routines and the models is supplied through each
channel (generated rc file, SECTION.FIELD=VALUE options, the ``config`` dictionary for System
fields); the monitor reads back the effective value and Python type field by field, checks
precedence option > file > default, save -> load round trips, behavioural probes for fields whose
use is observable, and rejection of invalid values / malformed option strings.
"""
import os

import numpy as np

from vf.util import Result, rng_for

PROPERTY = "C20"
LEVEL = "exploration"
TIMEOUT = 900
RULE = ("the field list is harvested from a default System (all sections); per case one random assignment of a valid non-default "
        "value (other declared alternative / scaled number / float forms like 1e-6 and 20.0) to a random subset of fields, "
        "delivered through rc file, options, both (option must win), or dict; effective value and type compared per field; "
        "save_config -> new System; invalid alternatives and malformed options must raise. Non-trivial: >= 20 fields checked; "
        "distinct = (channel mix, field subset seed).")
ASSUMPTIONS = ["text channels (rc file, options) carry strings: the effective type is int if the text parses as int, else float, else str",
               "dictionary channel is defined for the System section only (System(config=...))"]
REQUIRED_OBS = {"fields_checked": 2000, "precedence_checks": 100, "roundtrip_fields": 500, "rejections_checked": 20, "behaviour_probes": 3}


def cases(tier, seed):
    out = []
    n = 24 if tier == "quick" else 300
    for i in range(n):
        out.append(dict(id="assign%04d" % i, kind="assign", index=i))
    out.append(dict(id="allfields:file", kind="allfields", channel="file"))
    out.append(dict(id="allfields:option", kind="allfields", channel="option"))
    m = 6 if tier == "quick" else 40
    for i in range(m):
        out.append(dict(id="reject%03d" % i, kind="reject", index=i))
    for p in ("tds_method", "tds_sparselib", "pflow_tol", "tds_tstep", "system_mva", "pflow_method"):
        out.append(dict(id="probe:" + p, kind="probe", probe=p))
    return out


def worker_init():
    from vf import au
    au.quiet()


# ------------------------------------------------------------------------------------------------

_fields = None


def harvest():
    """{section: {field: (default, alt)}} from a default System."""
    global _fields
    if _fields is not None:
        return _fields
    from vf import au
    ss = au.new_system(no_undill=True)
    out = {}
    holders = [("System", ss.config)] + [(n, r.config) for n, r in ss.routines.items()] + [(n, m.config) for n, m in ss.models.items()]
    for name, cfg in holders:
        d = cfg.as_dict(refresh=True)
        if d:
            out[name] = {k: (v, cfg._alt.get(k)) for k, v in d.items()}
    _fields = out
    return out


def text_parse(s):
    try:
        return int(s)
    except ValueError:
        try:
            return float(s)
        except ValueError:
            return s


def other_value(rng, default, alt):
    """A valid value different from the default, as the TEXT the user would write, or None to skip."""
    if isinstance(alt, (tuple, list, set, frozenset)) and not isinstance(alt, str):
        choices = [a for a in alt if a != default]
        if not choices:
            return None
        c = sorted(choices, key=str)[int(rng.integers(0, len(choices)))]
        return str(c)
    if isinstance(default, bool):
        return None
    if isinstance(default, int):
        if isinstance(alt, str) and ("0, 1" in alt or "(0,1)" in alt.replace(" ", "")):
            return str(1 - default) if default in (0, 1) else None
        r = rng.random()
        if r < 0.2:
            return "-%d" % int(rng.integers(1, 6))          # a signed integer is still an integer
        if r < 0.3:
            return "+%d" % (default + int(rng.integers(1, 4)))
        return str(default + int(rng.integers(1, 4)))
    if isinstance(default, float):
        forms = [repr(default * 1.5 + 0.25), "%.3e" % (default * 0.5 + 1e-6), "%d.0" % (int(abs(default)) + 2)]
        return forms[int(rng.integers(0, len(forms)))]
    if isinstance(default, str):
        return None      # free strings (paths, names): no declared alternatives to choose from
    return None


SKIP = {("System", "seed"), ("System", "np_divide"), ("System", "np_invalid"), ("System", "numba"), ("System", "dime_enabled"),
        ("System", "yapf_pycode"), ("System", "numba_parallel"), ("System", "numba_nopython")}


def effective(ss, section, field):
    if section == "System":
        return getattr(ss.config, field)
    if section in ss.routines:
        return getattr(ss.routines[section].config, field)
    return getattr(ss.models[section].config, field)


def same(a, b):
    return type(a) is type(b) and a == b


def build(rc_sections=None, options=None, dct=None, sd=None):
    from vf import au
    # configuration only: the generated code is not needed (and a config file that lists model fields in
    # another order changes the model checksum, which would trigger code regeneration in the shared HOME)
    kw = {"no_undill": True}
    if options:
        kw["config_option"] = list(options)
    if dct:
        kw["config"] = dict(dct)
    if rc_sections is not None:
        rc = au.write_rc(os.path.join(sd, "t%d.rc" % np.random.randint(1 << 30)), rc_sections)
        return au.new_system(config_path=rc, **kw)
    return au.new_system(**kw)


def run_assign(spec, res):
    from vf import au
    F = harvest()
    rng = rng_for(spec.get("seed", 0), PROPERTY, 1, spec["index"])
    mode = ["file", "option", "file+option", "dict", "sparse-file+option"][spec["index"] % 5]
    sections = sorted(F)
    pick = [s for s in sections if rng.random() < 0.25] or ["TDS"]
    for must in ("System", "TDS", "PFlow"):
        if must not in pick and rng.random() < 0.7:
            pick.append(must)
    assign = {}
    for s in pick:
        for f, (dflt, alt) in F[s].items():
            if (s, f) in SKIP or rng.random() < 0.4:
                continue
            t = other_value(rng, dflt, alt)
            if t is not None:
                assign[(s, f)] = t
    if not assign:
        res.inconc("empty assignment")
        return
    file_vals, opt_vals, dict_vals = {}, {}, {}
    keys = list(assign)
    if mode == "file":
        file_vals = dict(assign)
    elif mode == "option":
        opt_vals = dict(assign)
    elif mode == "dict":
        dict_vals = {k: v for k, v in assign.items() if k[0] == "System"}
        file_vals = {k: v for k, v in assign.items() if k[0] != "System"}
    elif mode == "file+option":
        file_vals = dict(assign)
        # options override a subset with yet another value
        for k in keys:
            if rng.random() < 0.5:
                dflt, alt = F[k[0]][k[1]]
                t2 = other_value(rng, dflt, alt)
                if t2 is not None:
                    opt_vals[k] = t2
    else:   # sparse file (few sections) + options for sections the file does not mention
        secs = sorted(set(k[0] for k in keys))
        in_file = set(secs[: max(1, len(secs) // 2)])
        file_vals = {k: v for k, v in assign.items() if k[0] in in_file}
        opt_vals = {k: v for k, v in assign.items() if k[0] not in in_file}
    rc_sections = {}
    for (s, f), t in file_vals.items():
        rc_sections.setdefault(s, {})[f] = t
    options = ["%s.%s=%s" % (s, f, t) for (s, f), t in opt_vals.items()]
    dct = {f: text_parse(t) for (s, f), t in dict_vals.items()}
    with au.Scratch("c20") as sd:
        try:
            ss = build(rc_sections if (rc_sections or mode != "option") else None, options, dct, sd)
        except Exception as e:
            per_section = {}
            for (s, f) in opt_vals:
                per_section[s] = per_section.get(s, 0) + 1
            if type(e).__name__ == "DuplicateSectionError":
                mech = "option_duplicate_section"
            elif type(e).__name__ == "NoSectionError":
                mech = "option_section_missing_in_file"
            else:
                mech = "valid_config_rejected"
            res.violate(mech, "building a System with valid values through %s raised %s: %s (options per section: %s)" % (
                mode, type(e).__name__, str(e)[:200], dict(list(per_section.items())[:5])), mode=mode)
            res.sig = "assign:%s:%d" % (mode, spec["index"])
            return
        for (s, f), t in assign.items():
            want_text = opt_vals.get((s, f), file_vals.get((s, f)))
            if (s, f) in dict_vals:
                want = dct[f]
            else:
                if want_text is None:
                    continue
                want = text_parse(want_text)
            got = effective(ss, s, f)
            res.count("fields_checked")
            if (s, f) in opt_vals and (s, f) in file_vals:
                res.count("precedence_checks")
            if not same(got, want):
                mech = "precedence" if ((s, f) in opt_vals and (s, f) in file_vals) else "effective_value"
                res.violate(mech, "[%s].%s supplied %r through %s: effective value %r (%s), expected %r (%s)" % (
                    s, f, want_text if want_text is not None else want, mode, got, type(got).__name__, want, type(want).__name__),
                    section=s, field=f)
        # untouched fields keep their defaults
        for s in rng.choice(sections, size=min(8, len(sections)), replace=False):
            for f, (dflt, alt) in F[s].items():
                if (s, f) not in assign and (s, f) not in SKIP:
                    res.count("default_fields_checked")
                    if not same(effective(ss, s, f), dflt):
                        res.violate("default_changed", "[%s].%s was not supplied but is %r instead of the default %r" % (s, f, effective(ss, s, f), dflt))
        # values changed on the live configuration objects (the way scripts do it) are part of the configuration in effect
        set_later = {}
        if rng.random() < 0.6:
            for _ in range(int(rng.integers(1, 4))):
                s_ = sections[int(rng.integers(0, len(sections)))]
                fl = [f_ for f_ in F[s_] if (s_, f_) not in SKIP]
                if not fl:
                    continue
                f_ = fl[int(rng.integers(0, len(fl)))]
                t_ = other_value(rng, F[s_][f_][0], F[s_][f_][1])
                if t_ is None:
                    continue
                cfg = ss.config if s_ == "System" else (ss.routines[s_].config if s_ in ss.routines else ss.models[s_].config)
                setattr(cfg, f_, text_parse(t_))
                set_later[(s_, f_)] = text_parse(t_)
                res.count("fields_set_by_attribute")
        # save -> load
        path = os.path.join(sd, "saved.rc")
        ss.save_config(path, overwrite=True)
        ss2 = au.new_system(config_path=path, no_undill=True)
        for s in sections:
            for f in F[s]:
                a, b = effective(ss, s, f), effective(ss2, s, f)
                res.count("roundtrip_fields")
                if not same(a, b) and not (isinstance(a, float) and a != a):
                    res.violate("save_load_after_attribute_set" if (s, f) in set_later else "save_load",
                                "[%s].%s = %r (%s) is %r (%s) after save_config -> load%s" % (
                        s, f, a, type(a).__name__, b, type(b).__name__, " (value assigned to the config attribute after construction)" if (s, f) in set_later else ""),
                        section=s, field=f)
    res.sig = "assign:%s:%d:%d" % (mode, spec.get("seed", 0), spec["index"])
    res.nontrivial = res.obs.get("fields_checked", 0) >= 20
    res.sample = dict(mode=mode, fields=len(assign), options=options[:3], file_sections=list(rc_sections)[:5])


def run_allfields(spec, res):
    """Every field once, all in one System, through one channel."""
    from vf import au
    F = harvest()
    rng = rng_for(spec.get("seed", 0), PROPERTY, 2, 0 if spec["channel"] == "file" else 1)
    assign = {}
    for s in F:
        for f, (dflt, alt) in F[s].items():
            if (s, f) in SKIP:
                continue
            t = other_value(rng, dflt, alt)
            if t is not None:
                assign[(s, f)] = t
    with au.Scratch("c20") as sd:
        rc_sections, options = None, None
        if spec["channel"] == "file":
            rc_sections = {}
            for (s, f), t in assign.items():
                rc_sections.setdefault(s, {})[f] = t
        else:
            options = ["%s.%s=%s" % (s, f, t) for (s, f), t in assign.items()]
        try:
            ss = build(rc_sections, options, None, sd)
        except Exception as e:
            mech = {"DuplicateSectionError": "option_duplicate_section", "NoSectionError": "option_section_missing_in_file"}.get(
                type(e).__name__, "valid_config_rejected")
            res.violate(mech, "all fields through %s raised %s: %s" % (spec["channel"], type(e).__name__, str(e)[:200]))
            return
        for (s, f), t in assign.items():
            want = text_parse(t)
            got = effective(ss, s, f)
            res.count("fields_checked")
            if not same(got, want):
                res.violate("effective_value", "[%s].%s supplied %r through %s: effective %r (%s)" % (s, f, t, spec["channel"], got, type(got).__name__),
                            section=s, field=f)
    res.sig = "allfields:" + spec["channel"]
    res.nontrivial = True
    res.sample = dict(channel=spec["channel"], fields=len(assign), sections=len(F))


def run_reject(spec, res):
    from vf import au
    F = harvest()
    rng = rng_for(spec.get("seed", 0), PROPERTY, 3, spec["index"])
    with au.Scratch("c20") as sd:
        # (1) value outside the declared alternatives, each channel
        cands = [(s, f, alt) for s in F for f, (d, alt) in F[s].items()
                 if isinstance(alt, (tuple, list, set, frozenset)) and not isinstance(alt, str) and (s, f) not in SKIP]
        for trial in range(6):
            s, f, alt = cands[int(rng.integers(0, len(cands)))]
            bad = "zzz_invalid" if any(isinstance(a, str) for a in alt) else "7"
            chan = ["file", "option", "dict"][int(rng.integers(0, 3))]
            if chan == "dict" and s != "System":
                chan = "file"
            res.count("rejections_checked")
            try:
                if chan == "file":
                    build({s: {f: bad}}, None, None, sd)
                elif chan == "option":
                    build(None, ["%s.%s=%s" % (s, f, bad)], None, sd)
                else:
                    build(None, None, {f: text_parse(bad)}, sd)
                res.violate("invalid_value_accepted", "[%s].%s=%s (alternatives %s) through %s was accepted" % (s, f, bad, sorted(alt, key=str), chan),
                            section=s, field=f, channel=chan)
            except ValueError:
                pass
            except Exception as e:
                res.violate("invalid_value_other_error", "[%s].%s=%s through %s raised %s instead of ValueError" % (s, f, bad, chan, type(e).__name__))
        # (2) malformed option strings
        for opt in ["TDS.tf=1=2", "tf", "TDS=1", "a.b.c=1", "", "TDS.tf", "=3", "TDS..tf=2"]:
            res.count("rejections_checked")
            try:
                build(None, [opt], None, sd)
                if opt == "":
                    res.note("empty option accepted")
                res.violate("malformed_option_accepted", "malformed option %r was accepted" % opt, option=opt)
            except ValueError:
                pass
            except Exception as e:
                res.violate("malformed_option_other_error", "malformed option %r raised %s: %s" % (opt, type(e).__name__, str(e)[:80]), option=opt)
    res.sig = "reject:%d:%d" % (spec.get("seed", 0), spec["index"])
    res.nontrivial = True
    res.sample = dict(checked=res.obs.get("rejections_checked", 0))


def run_probe(spec, res):
    """Behavioural probes: the supplied value is what the code actually uses."""
    from vf import au
    p = spec["probe"]
    res.count("behaviour_probes")
    with au.Scratch("c20") as sd:
        def load(case, **kw):
            opts = ["%s=%s" % (k.replace("__", "."), v) for k, v in kw.items()]
            rc = au.write_rc(os.path.join(sd, "p.rc"), {"PFlow": dict(report=0), "TDS": dict(no_tqdm=1)})
            return au.load(case, config_path=rc, config_option=opts, autogen_stale=False)
        if p == "tds_method":
            ss = load("kundur/kundur_full.xlsx", TDS__method="backeuler")
            if type(ss.TDS.method).__name__ != "BackEuler":
                res.violate("probe_tds_method", "TDS.method=backeuler but the integrator object is %s" % type(ss.TDS.method).__name__)
        elif p == "tds_sparselib":
            ss = load("kundur/kundur_full.xlsx", TDS__sparselib="umfpack")
            if type(ss.TDS.solver.worker).__name__ != "UMFPACKSolver":
                res.violate("probe_sparselib", "TDS.sparselib=umfpack but the solver is %s" % type(ss.TDS.solver.worker).__name__)
        elif p == "pflow_tol":
            a = load("ieee14/ieee14_full.xlsx", PFlow__tol="1e-2")
            b = load("ieee14/ieee14_full.xlsx", PFlow__tol="1e-12")
            a.PFlow.run()
            b.PFlow.run()
            if not (a.PFlow.niter < b.PFlow.niter):
                res.violate("probe_pflow_tol", "PFlow.tol 1e-2 / 1e-12 give %d / %d iterations" % (a.PFlow.niter, b.PFlow.niter))
        elif p == "tds_tstep":
            ss = load("kundur/kundur_full.xlsx", TDS__tstep="0.05", TDS__tf="1.0")
            ss.PFlow.run()
            ss.TDS.run()
            h = np.diff(np.array(ss.dae.ts.t))
            if abs(np.max(h) - 0.05) > 1e-12:
                res.violate("probe_tstep", "TDS.tstep=0.05 but the largest step taken is %r" % float(np.max(h)))
            if float(ss.dae.ts.t[-1]) != 1.0:
                res.violate("probe_tf", "TDS.tf=1.0 but the run ended at %r" % float(ss.dae.ts.t[-1]))
        elif p == "system_mva":
            a = load("kundur/kundur_full.xlsx")
            b = load("kundur/kundur_full.xlsx", System__mva="50")
            ra = a.Line.x.v / a.Line.x.vin
            rb = b.Line.x.v / b.Line.x.vin
            if not np.allclose(rb / ra, 0.5, rtol=1e-12):
                res.violate("probe_mva", "System.mva=50 does not halve the line impedance conversion factor: ratio %r" % (rb / ra)[:3])
        elif p == "pflow_method":
            ss = load("ieee14/ieee14_full.xlsx", PFlow__method="dishonest", PFlow__n_factorize="1")
            ss.PFlow.run()
            ref = load("ieee14/ieee14_full.xlsx")
            ref.PFlow.run()
            if not ss.PFlow.niter > ref.PFlow.niter:
                res.violate("probe_pflow_method", "dishonest Newton with one factorisation took %d iterations, full NR %d" % (ss.PFlow.niter, ref.PFlow.niter))
    res.sig = "probe:" + p
    res.nontrivial = True
    res.sample = dict(probe=p)


def run_case(spec):
    res = Result(spec)
    {"assign": run_assign, "allfields": run_allfields, "reject": run_reject, "probe": run_probe}[spec["kind"]](spec, res)
    return res


def finding_key(w, spec):
    return w.get("mech")
