"""
C12 - Island detection and status propagation match the network graph.

Monitor: post-condition on the real ``System.connectivity`` (wrapped before the workload, so it is
also evaluated at every call made by PFlow / TDS after switching events) against an own
union-find over in-service series devices; bus-off propagation against an own attachment scan.
"""
import numpy as np

from vf.util import Result, rng_for

PROPERTY = "C12"
LEVEL = "exploration"
TIMEOUT = 300
RULE = ("random topologies (trees, rings, meshes, parallel edges, jumpers, 3-40 buses) and ieee14/kundur/ieee39 with random "
        "on/off patterns of lines/jumpers (incl. all-off, slack disconnected, several slacks per island) and random buses "
        "switched off; connectivity() post-condition evaluated at every call including those made inside power flow and "
        "time-domain simulation after Toggle events. Non-trivial: >= 2 components or >= 1 isolated bus observed; distinct "
        "= distinct (topology seed, status pattern).")
ASSUMPTIONS = ["series devices are Line, Jumper (and Fortescue when present), as in the group ACLine/ACShort",
               "a bus with no in-service series device is 'isolated'; the other components are 'islands'"]
REQUIRED_OBS = {"connectivity_calls_checked": 20, "multi_island_patterns": 5}


def cases(tier, seed):
    out = []
    n = 60 if tier == "quick" else 600
    for i in range(n):
        out.append(dict(id="topo%04d" % i, kind="topo", index=i))
    m = 12 if tier == "quick" else 80
    for i in range(m):
        out.append(dict(id="busoff%03d" % i, kind="busoff", index=i))
    stock = ["ieee14/ieee14_linetrip.xlsx", "kundur/kundur_full.xlsx", "ieee14/ieee14_island.xlsx", "kundur/kundur_islands.xlsx",
             "ieee14/ieee14_jumper.xlsx", "ieee14/ieee14_conn.xlsx",
             # networks without any synchronous machine (static only / converter interface): events still re-check connectivity
             "matpower/case14.m", "5bus_fortescue.xlsx", "ieee14/ieee14.raw"]
    k = 2 if tier == "quick" else 10
    for p in stock:
        for j in range(k):
            out.append(dict(id="tds:%s:%d" % (p, j), kind="tds", path=p, index=j))
    return out


def worker_init():
    from vf import au
    au.quiet()


# ---------------------------------------------------------------------------------------------

def expected_components(ss):
    """Own reconstruction: bus positions from idx, edges from in-service series devices."""
    from vf.au import UnionFind
    pos = {b: i for i, b in enumerate(ss.Bus.idx.v)}
    n = ss.Bus.n
    uf = UnionFind(n)
    deg = [0] * n
    edges = 0
    for mname, f1, f2 in (("Line", "bus1", "bus2"), ("Jumper", "bus1", "bus2")):
        m = getattr(ss, mname, None)
        if m is None or m.n == 0:
            continue
        for k in range(m.n):
            if m.u.v[k] != 0:
                a, b = pos[getattr(m, f1).v[k]], pos[getattr(m, f2).v[k]]
                uf.union(a, b)
                deg[a] += 1
                deg[b] += 1
                edges += 1
    fz = getattr(ss, "Fortescue", None)
    if fz is not None and fz.n > 0:
        return None
    isolated = sorted(i for i in range(n) if deg[i] == 0)
    comps = {}
    for i in range(n):
        if deg[i] > 0:
            comps.setdefault(uf.find(i), set()).add(i)
    comps = sorted((frozenset(c) for c in comps.values()), key=lambda c: min(c))
    slack_pos = [pos[b] for b, u in zip(ss.Slack.bus.v, ss.Slack.u.v) if u == 1]
    return dict(isolated=isolated, comps=comps, slack_pos=slack_pos, edges=edges)


def check_connectivity_state(res, ss, tag):
    exp = expected_components(ss)
    if exp is None:
        res.count("oracle_not_applicable")
        return
    res.count("connectivity_calls_checked")
    B = ss.Bus
    got_iso = sorted(int(i) for i in B.islanded_buses)
    if got_iso != exp["isolated"]:
        res.violate("isolated_buses", "%s: islanded_buses=%s expected degree-0 buses %s" % (tag, got_iso[:12], exp["isolated"][:12]))
    got_sets = sorted((frozenset(int(i) for i in s) for s in B.island_sets), key=lambda c: min(c) if c else -1)
    if got_sets != exp["comps"]:
        res.violate("island_sets", "%s: island_sets (%d) differ from connected components (%d): got %s expected %s" % (
            tag, len(got_sets), len(exp["comps"]), [sorted(s)[:8] for s in got_sets][:5], [sorted(s)[:8] for s in exp["comps"]][:5]))
    else:
        # classification by enabled slacks (indices refer to positions in island_sets)
        for name, want in (("nosw_island", lambda c: c == 0), ("msw_island", lambda c: c >= 2)):
            exp_idx = [k for k, s in enumerate(B.island_sets)
                       if want(sum(1 for p in exp["slack_pos"] if p in set(int(i) for i in s)))]
            got = sorted(int(i) for i in getattr(B, name))
            if got != exp_idx:
                res.violate("slack_classification", "%s: %s=%s expected %s" % (tag, name, got, exp_idx))
    if hasattr(B, "islanded_a") and len(B.islanded_buses) > 0:
        ia = sorted(int(i) for i in np.atleast_1d(B.islanded_a))
        iv = sorted(int(i) for i in np.atleast_1d(B.islanded_v))
        # addresses of a and v of the isolated buses
        exp_a = sorted(int(B.a.a[i]) for i in exp["isolated"])
        exp_v = sorted(int(B.v.a[i]) for i in exp["isolated"])
        if got_iso == exp["isolated"] and (ia != exp_a or iv != exp_v):
            res.violate("isolated_addresses", "%s: neutralised addresses a=%s v=%s, expected a=%s v=%s" % (
                tag, ia[:8], iv[:8], exp_a[:8], exp_v[:8]))
    ncomp = len(exp["comps"]) + len(exp["isolated"])
    res.maxobs("max_components", ncomp)
    if ncomp >= 2:
        res.count("multi_island_patterns")
    if exp["isolated"]:
        res.count("patterns_with_isolated_bus")
    return exp


def install_monitor(ss, res, tag):
    """Wrap the bound method on the instance: every later call is checked."""
    orig = ss.connectivity

    def wrapped(*a, **kw):
        r = orig(*a, **kw)
        check_connectivity_state(res, ss, tag + "@t=%.4f" % float(ss.dae.t))
        return r
    ss.connectivity = wrapped
    return orig


def random_status(rng, n, mode):
    if mode == 0:
        return np.ones(n, dtype=int)
    if mode == 1:
        return (rng.random(n) < 0.45).astype(int)
    if mode == 2:
        return (rng.random(n) < 0.8).astype(int)
    if mode == 3:
        u = np.zeros(n, dtype=int)
        if n:
            u[int(rng.integers(0, n))] = 1
        return u
    if mode == 4:
        return np.zeros(n, dtype=int)
    return (rng.random(n) < 0.15).astype(int)


def run_topo(spec, res):
    from vf.gen import network as gn
    rng = rng_for(spec.get("seed", 0), PROPERTY, 1, spec["index"])
    n = int(rng.integers(3, 41))
    net = gn.gen_network(rng, nbus=n, hard=False)
    # extra slacks / jumpers
    njump = int(rng.integers(0, 4))
    jumpers = []
    for j in range(njump):
        a, b = rng.choice(n, size=2, replace=False)
        jumpers.append(dict(idx="J%d" % j, bus1=int(a) + 1, bus2=int(b) + 1, u=1))
    if rng.random() < 0.5:
        for j in range(int(rng.integers(1, 3))):
            b = int(rng.integers(0, n))
            net["slack"].append(dict(idx="GS%d" % j, bus=b + 1, Sn=100.0, Vn=net["bus"][b]["Vn"], v0=1.0, a0=0.0, p0=0.1, q0=0.0,
                                     u=int(rng.random() < 0.7)))
    # own random stream for options added later (earlier patterns stay what they were)
    rng2 = rng_for(spec.get("seed", 0), PROPERTY, 7, spec["index"])
    if rng2.random() < 0.35:
        # a second slack generator on a bus that already has one: classification counts generators, not buses
        s0 = net["slack"][int(rng2.integers(0, len(net["slack"])))]
        net["slack"].append(dict(s0, idx="GD%s" % s0["idx"], u=int(rng2.random() < 0.8)))
        res.count("patterns_with_two_slacks_on_one_bus")
    ipadd = int(rng2.random() < 0.6)
    mode = int(rng.integers(0, 6))
    ul = random_status(rng, len(net["line"]), mode)
    for ln, u in zip(net["line"], ul):
        ln["u"] = int(u)
    uj = random_status(rng, len(jumpers), int(rng.integers(0, 5)))
    for jp, u in zip(jumpers, uj):
        jp["u"] = int(u)
    if rng.random() < 0.3:
        net = gn.present(net, rng, shuffle=True, idx_style=["num", "str"][int(rng.integers(0, 2))])
        bm = {b["name"]: b["idx"] for b in net["bus"]}
        for jp in jumpers:
            jp["bus1"], jp["bus2"] = bm["B%d" % jp["bus1"]], bm["B%d" % jp["bus2"]]
    ss = gn.build_system(net, setup=False)
    ss.config.ipadd = ipadd           # both ways of accumulating the Jacobian (in place / rebuild) patch the isolated buses
    res.count("patterns_ipadd_%d" % ipadd)
    for jp in jumpers:
        ss.add("Jumper", dict(jp))
    ss.setup()
    res.sig = "topo:%d:%d" % (spec.get("seed", 0), spec["index"])
    install_monitor(ss, res, "topo")
    try:
        ss.connectivity(info=False)
    except Exception as e:
        all_off = not any(ln["u"] for ln in net["line"]) and not any(j["u"] for j in jumpers)
        res.violate("connectivity_raises_all_isolated" if all_off else "connectivity_raises",
                    "connectivity() raised %r (lines on: %d/%d, jumpers on: %d/%d)" % (
                        e, int(ul.sum()), len(ul), int(uj.sum()) if len(uj) else 0, len(uj)), all_off=all_off)
        return
    exp = expected_components(ss)
    ncomp = len(exp["comps"]) + len(exp["isolated"])
    res.nontrivial = ncomp >= 2
    res.sample = dict(nbus=n, lines_on="%d/%d" % (int(ul.sum()), len(ul)), jumpers_on="%d/%d" % (int(uj.sum()) if len(uj) else 0, len(uj)),
                      components=len(exp["comps"]), isolated=len(exp["isolated"]), nosw=list(ss.Bus.nosw_island),
                      msw=list(ss.Bus.msw_island))
    # "isolated buses are neutralised so they cannot spoil convergence": when every island has exactly one
    # slack, power flow must still converge and satisfy the independent balance on non-isolated buses
    if exp["isolated"] and len(exp["comps"]) >= 1 and not ss.Bus.nosw_island and not ss.Bus.msw_island:
        from vf.checks import c01
        ok, err = c01.run_pf(ss)
        res.count("pf_with_isolated_buses")
        if ok:
            sub = Result(spec)
            c01.check_solution(sub, ss, "pf-with-isolated", float(ss.PFlow.config.tol))
            for v in sub.violations:
                res.violate("isolated_not_neutralised", v["msg"])
            res.count("pf_with_isolated_converged")
            if not np.all(np.isfinite(ss.dae.y)):
                res.violate("isolated_not_neutralised", "NaN in solution with isolated buses")
        else:
            res.count("pf_with_isolated_nonconverged")
            # "cannot spoil convergence": decided with the own solver on the same data (isolated buses left out there) -
            # well-posed as in C01 when the own Newton iteration needs no more than 10 steps
            from vf.oracle import powerflow as opf
            d, unsupported = opf.extract(ss)
            d["bus_u"] = np.array(ss.Bus.u.v, dtype=float)
            ref = opf.solve(d, tol=1e-8, max_iter=10) if (not unsupported and not jumpers) else None
            if ref is not None and ref["converged"] and np.all(np.abs(ref["V"][ref["live"]]) > 0.5):
                res.violate("isolated_spoils_convergence", "power flow with isolated bus(es) %s (ipadd=%d) does not converge (%s) although the network "
                            "without them is well-posed (own Newton: %d iterations)" % (exp["isolated"][:6], ipadd, err, ref["iters"]), ipadd=ipadd)
            else:
                res.count("pf_with_isolated_rest_infeasible_or_outside_oracle")


def attached(ss, off_bus):
    """All (group, model, idx) of power-flow/measurement devices attached to any bus in off_bus (own scan)."""
    offs = set(off_bus)
    out = set()
    for mname, m in ss.models.items():
        if m.n == 0 or mname == "Bus":
            continue
        grp = m.group
        if grp not in ("ACLine", "ACShort", "FreqMeasurement", "Interface", "Motor", "PhasorMeasurement", "StaticACDC",
                       "StaticGen", "StaticLoad", "StaticShunt"):
            continue
        for fld in ("bus", "bus1", "bus2"):
            if fld in m.params:
                for k, b in enumerate(getattr(m, fld).v):
                    if b in offs:
                        out.add((mname, m.idx.v[k]))
    return out


def run_busoff(spec, res):
    from vf import au
    rng = rng_for(spec.get("seed", 0), PROPERTY, 2, spec["index"])
    path = ["ieee14/ieee14_linetrip.xlsx", "kundur/kundur_full.xlsx", "ieee39/ieee39_full.xlsx", "ieee14/ieee14_pmu.xlsx",
            "kundur/kundur_pmu.xlsx"][int(rng.integers(0, 5))]
    import os
    if not os.path.isfile(au.case(path)):
        path = "ieee14/ieee14_linetrip.xlsx"
    ss = au.load(path, setup=False)
    nb = ss.Bus.n
    noff = int(rng.integers(1, 4))
    # never the slack bus alone matters; any bus may be switched off
    off = [ss.Bus.idx.v[int(i)] for i in rng.choice(nb, size=noff, replace=False)]
    # devices of a second model of a group on the same buses (a switched shunt next to a fixed one, a PV unit next to the
    # slack generator): a group holds several models and all of them are attached to the bus
    rng2 = rng_for(spec.get("seed", 0), PROPERTY, 7, spec["index"])
    if rng2.random() < 0.6:
        vn = dict(zip(ss.Bus.idx.v, ss.Bus.Vn.v))
        targets = list(off) if rng2.random() < 0.7 else [ss.Bus.idx.v[int(rng2.integers(0, nb))]]
        for b in targets:
            ss.add("ShuntSw", dict(bus=b, Vn=vn[b], Sn=100.0, gs="[0.0]", bs="[0.02]", ns="[1]"))
            if rng2.random() < 0.5:
                ss.add("Shunt", dict(bus=b, Vn=vn[b], Sn=100.0, g=0.0, b=0.01))
            res.count("busoff_extra_models_in_group")
    ss.setup()
    res.sig = "busoff:%s:%s" % (path, sorted(map(str, off)))
    before = {}
    for mname, m in ss.models.items():
        if m.n and "u" in m.params:
            before[mname] = np.array(m.u.v).copy()
    via = ["alter", "set", "alter-list", "set-list"][int(rng.integers(0, 4))]
    if rng2.random() < 0.25:
        via = ["group-set", "group-set-list", "group-alter"][int(rng2.integers(0, 3))]      # the same operation through the Bus group
    after_pf = bool(rng.integers(0, 2))
    try:
        if after_pf:
            ss.PFlow.run()
        if via == "alter":
            for b in off:
                ss.Bus.alter("u", b, 0)
        elif via == "set":
            for b in off:
                ss.Bus.set("u", b, "v", 0)
        elif via == "alter-list":
            ss.Bus.alter("u", list(off), 0)
        elif via == "group-set":
            for b in off:
                ss.groups[ss.Bus.group].set("u", b, "v", 0)
        elif via == "group-set-list":
            ss.groups[ss.Bus.group].set("u", list(off), "v", 0)
        elif via == "group-alter":
            ss.groups[ss.Bus.group].alter("u", list(off), 0)
        else:
            ss.Bus.set("u", list(off), "v", 0)
        install_monitor(ss, res, "busoff")
        ss.PFlow.init()       # routines act on pending connectivity changes when they initialise
    except Exception as e:
        res.inconc("bus switching raised %r" % (e,))
        return
    res.count("busoff_via_" + via.replace("-", "_"))
    att = attached(ss, off)
    changed = set()
    for mname, m in ss.models.items():
        if mname in before and mname != "Bus":
            for k in np.where(np.array(m.u.v) != before[mname])[0]:
                changed.add((mname, m.idx.v[int(k)]))
                if m.u.v[int(k)] != 0:
                    res.violate("busoff_switched_on", "%s %r was switched ON by bus-off" % (mname, m.idx.v[int(k)]))
    extra = changed - att
    res.count("busoff_devices_attached", len(att))
    res.count("busoff_devices_changed", len(changed))
    if extra:
        res.violate("busoff_extra", "switching off bus(es) %s changed devices not attached to them: %s" % (off, sorted(map(str, extra))[:6]))
    still_on = [(mn, i) for (mn, i) in att if ss.models[mn].get("u", i, "v") != 0]
    if still_on:
        seq = via in ("alter", "set") and len(off) > 1
        res.violate("busoff_missed_sequential_calls" if seq else "busoff_missed",
                    "bus(es) %s switched off via %s%s but attached devices still on: %s" % (
                        off, via, " after PF" if after_pf else "", sorted(map(str, still_on))[:6]), via=via, n_off=len(off))
    # quiescent point "before power flow": the routine is initialised, pending switchings have been carried out -
    # what the system reports about islands and isolated buses must describe the graph as it is now
    exp = check_connectivity_state(res, ss, "busoff(%s%s) after PFlow.init" % (via, " after PF" if after_pf else ""))
    res.count("connectivity_state_checked_at_quiescent_point")
    # ... and the switched-off buses must not spoil convergence: when what remains in service is one island with a slack
    # generator, the power flow of the reduced network has to converge (the full case does)
    if not res.violations and exp is not None and len(exp["comps"]) == 1:
        comp = set(int(i) for i in exp["comps"][0])
        if any(int(p_) in comp for p_ in exp["slack_pos"]):
            try:
                ok = bool(ss.PFlow.run())
            except Exception as e:
                ok = False
                res.note("PFlow.run raised %r" % (e,))
            res.count("busoff_power_flows")
            # losing a generator bus or a transfer path may make the reduced network infeasible: decide with the own solver
            if not ok:
                from vf.oracle import powerflow as opf
                d, unsupported = opf.extract(ss)
                # "well-posed within normal loading" as in C01: the own Newton solver needs no more than 10 iterations
                ref = opf.solve(d, tol=1e-8, max_iter=10) if not unsupported else None
                if ref is not None and ref["converged"]:
                    res.violate("busoff_spoils_convergence", "bus(es) %s switched off via %s%s: PFlow.run() fails although the remaining network "
                                "is one island with a slack generator and the own Newton solver converges on it in %d iterations" % (
                                    off, via, " after PF" if after_pf else "", ref["iters"]), via=via)
                else:
                    res.count("busoff_reduced_network_infeasible_or_outside_oracle")
            check_connectivity_state(res, ss, "busoff(%s) after PFlow.run" % via)
    res.nontrivial = len(att) > 0
    res.sample = dict(case=path, off=off, via=via, after_pf=after_pf, attached=len(att), changed=len(changed))


def run_tds(spec, res):
    """connectivity() is called by ANDES after switching events: check it there as well."""
    from vf import au
    rng = rng_for(spec.get("seed", 0), PROPERTY, 3, spec["index"], abs(hash(spec["path"])) % 1000)
    ss = au.load(spec["path"], setup=False)
    # add random line toggles
    nl = ss.Line.n
    k = int(rng.integers(1, 5))
    for j, li in enumerate(rng.choice(nl, size=min(k, nl), replace=False)):
        ss.add("Toggle", dict(model="Line", dev=ss.Line.idx.v[int(li)], t=float(np.round(rng.uniform(0.05, 0.6), 3))))
    ss.setup()
    install_monitor(ss, res, "tds:" + spec["path"])
    res.sig = "tds:%s:%d" % (spec["path"], spec["index"])
    # a user-flagged event (documented in cases/ieee14/pert.py): a perturbation callback opens a branch during the run and sets
    # TDS.custom_event; what the system reports about islands afterwards must describe the graph as it then is.  The branch is
    # one whose end buses keep another in-service branch (the callback runs before the step: isolating a bus there is a
    # different, documented limitation of the loop order).
    rng2 = rng_for(spec.get("seed", 0), PROPERTY, 8, spec["index"], abs(hash(spec["path"])) % 1000)
    custom = dict(done=False, line=None)
    if rng2.random() < 0.6 and getattr(ss, "Fortescue", None) is not None and ss.Fortescue.n == 0:
        t_c = float(np.round(rng2.uniform(0.62, 0.68), 3))       # after every scheduled toggle

        def pert(t, system, _c=custom):
            if _c["done"] or t < t_c:
                return
            _c["done"] = True
            pos = {b: i for i, b in enumerate(system.Bus.idx.v)}
            deg = np.zeros(system.Bus.n, dtype=int)
            for k_ in range(system.Line.n):
                if system.Line.u.v[k_] != 0:
                    deg[pos[system.Line.bus1.v[k_]]] += 1
                    deg[pos[system.Line.bus2.v[k_]]] += 1
            cand = [k_ for k_ in range(system.Line.n) if system.Line.u.v[k_] != 0 and deg[pos[system.Line.bus1.v[k_]]] >= 2 and deg[pos[system.Line.bus2.v[k_]]] >= 2]
            if not cand:
                return
            k_ = cand[int(rng2.integers(0, len(cand)))]
            system.Line.alter("u", system.Line.idx.v[k_], 0)
            system.TDS.custom_event = True
            _c["line"] = system.Line.idx.v[k_]
        ss.TDS.callpert = pert
    try:
        if not ss.PFlow.run():
            res.count("pf_failed")
            res.nontrivial = res.obs.get("connectivity_calls_checked", 0) > 0
            return
        ss.TDS.config.tf = 0.7
        ss.TDS.config.no_tqdm = 1
        completed = bool(ss.TDS.run())
        if custom["line"] is not None and not completed:
            res.count("custom_events_run_failed_afterwards")      # e.g. the opened branch left an island without a source: reported failure
        if custom["line"] is not None and completed:
            res.count("custom_events_applied")
            check_connectivity_state(res, ss, "tds:%s after the user-flagged event (branch %r opened by the perturbation callback)" % (spec["path"], custom["line"]))
    except Exception as e:
        import traceback
        tb = traceback.extract_tb(e.__traceback__)
        if any(fr.name == "connectivity" for fr in tb):
            res.violate("connectivity_raises_during_simulation", "%s: the connectivity check after a switching event at t=%.4f raised %r (in %s)" % (
                spec["path"], float(ss.dae.t), e, tb[-1].name), case=spec["path"])
        else:
            res.note("run raised %r" % (e,))
    res.count("tds_runs")
    res.nontrivial = res.obs.get("connectivity_calls_checked", 0) >= 2
    res.sample = dict(case=spec["path"], toggles=k, connectivity_calls=res.obs.get("connectivity_calls_checked", 0))


def run_case(spec):
    res = Result(spec)
    {"topo": run_topo, "busoff": run_busoff, "tds": run_tds}[spec["kind"]](spec, res)
    return res


def finding_key(w, spec):
    return w.get("mech")


def on_watchdog(spec, r, rerun):
    # "connectivity() does not return" is itself a refuting observation: confirm with a 5x budget
    r2 = rerun(spec, 5 * spec.get("timeout", TIMEOUT))
    if r2.get("watchdog"):
        r2["verdict"] = "violated"
        r2["violations"] = [dict(mech="connectivity_hangs", msg="case did not return within 5x the watchdog", data={})]
    return r2
