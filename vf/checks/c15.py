"""
C15 - Stored and exported results are the simulated values, complete and labelled.

Monitor: vf.monitor.tds_trace.StepTrace keeps its own copy of (t, x, y) of every accepted step
(what the solver held).  After runs under Output selections, save_every, limit_store/max_store
(chunk off-loading), resumed segments and store_f, the in-memory time series, the npz/lst files,
the plotting loader (TDSData in file mode), the csv export and a replay from that csv are compared
with the recorded rows exactly, and every column label is resolved back to its address.
"""
import os
import re

import numpy as np

from vf.util import Result, rng_for

PROPERTY = "C15"
LEVEL = "exploration"
TIMEOUT = 900
RULE = ("cases kundur_full / ieee14_fault / pjm5bus / wecc_gencls / ieee14_wt3 / SMIB with generated Output selections (none, "
        "model, model+variable, model+variable+device, several lines, unknown names), save_every in {1,2,3,7}, limit_store with "
        "max_store in {5,20,50}, 1-3 resumed segments. Non-trivial: >= 10 stored rows compared in at least memory+npz; distinct = "
        "(case, selection, storage options, segments).")
ASSUMPTIONS = ["'one row per accepted step' with save_every = N means the accepted steps whose running count is a multiple of N",
               "csv written with %.18e round-trips float64 exactly",
               "a replay rebuilds time stamps as t + (t_next - t); they are compared within 4e-16 relative, values exactly"]
REQUIRED_OBS = {"rows_compared_memory": 300, "rows_compared_npz": 300, "labels_resolved": 500, "csv_replays": 3, "output_selections": 5}

BASES = ["kundur/kundur_full.xlsx", "ieee14/ieee14_fault.xlsx", "5bus/pjm5bus.xlsx", "wecc/wecc_gencls.xlsx", "ieee14/ieee14_wt3.xlsx",
         "smib/SMIB.xlsx"]


def cases(tier, seed):
    n = 36 if tier == "quick" else 400
    return [dict(id="out%04d" % i, index=i) for i in range(n)]


def worker_init():
    from vf import au
    au.quiet()


def slot_name(var, model, idx):
    s = idx if (isinstance(idx, str) and model in idx) else "%s %s" % (model, idx)
    return "%s %s" % (var, str(s).replace("_", " "))


def gen_selection(rng, ss):
    """Random Output devices.  Returns list of dict(model, varname, dev)."""
    mode = int(rng.integers(0, 5))
    if mode == 0:
        return []
    models = [m for m in ss.models.values() if m.n > 0 and (len(m.states) + len(m.algebs)) > 0]
    sel = []
    for _ in range(int(rng.integers(1, 5))):
        m = models[int(rng.integers(0, len(models)))]
        vs = list(m.states) + list(m.algebs)
        c = int(rng.integers(0, 4))
        d = dict(model=m.class_name)
        if c >= 1:
            d["varname"] = vs[int(rng.integers(0, len(vs)))]
        if c >= 2:
            d["dev"] = m.idx.v[int(rng.integers(0, m.n))]
        if c == 3 and rng.random() < 0.3:
            d["varname"] = "no_such_var"          # invalid lines are skipped by design
        sel.append(d)
    return sel


def expected_columns(ss, sel):
    """Own computation of which x / y addresses are kept."""
    if not sel:
        return list(range(ss.dae.n)), list(range(ss.dae.m)), False
    xs, ys = set(), set()
    for d in sel:
        m = ss.models.get(d["model"])
        if m is None or m.n == 0:
            continue
        allv = dict(list(m.states.items()) + list(m.algebs.items()) + list(m.states_ext.items()) + list(m.algebs_ext.items()))
        var, dev = d.get("varname"), d.get("dev")
        if var is not None and var not in allv:
            continue
        if dev is not None and dev not in m.idx.v:
            continue
        items = [allv[var]] if var is not None else list(allv.values())
        for it in items:
            aa = np.atleast_1d(it.a)
            if dev is not None:
                aa = [aa[list(m.idx.v).index(dev)]]
            (xs if it.v_code == "x" else ys).update(int(a) for a in aa)
    return sorted(xs), sorted(ys), True


def run_case(spec):
    from vf import au
    from vf.monitor.tds_trace import StepTrace
    from andes.plot import TDSData
    res = Result(spec)
    rng = rng_for(spec.get("seed", 0), PROPERTY, spec["index"])
    base = BASES[int(rng.integers(0, len(BASES)))]
    save_every = int(rng.choice([1, 1, 2, 3, 7]))
    limit_store = int(rng.random() < 0.4)
    max_store = int(rng.choice([5, 20, 50]))
    tf = float(rng.choice([0.8, 1.5, 2.2]))
    nseg = int(rng.integers(1, 4))
    segs = sorted(set([float(np.round(rng.uniform(0.1, tf), 2)) for _ in range(nseg - 1)])) + [tf]
    segs = [s for s in segs if s <= tf]
    store_f = int(rng.random() < 0.3)
    with au.Scratch("c15") as sd:
        rc = au.write_rc(os.path.join(sd, "a.rc"), {"TDS": dict(tf=repr(segs[0]), no_tqdm=1, save_every=save_every, limit_store=limit_store,
                                                              max_store=max_store, store_f=store_f, criteria=0),
                                                    "PFlow": dict(report=0)})
        ss = au.load(base, setup=False, config_path=rc, no_output=False, output_path=sd)
        sel = gen_selection(rng, ss)
        for d in sel:
            ss.add("Output", dict(d))
        ss.setup()
        if sel:
            res.count("output_selections")
        if not ss.PFlow.run():
            res.inconc("power flow failed")
            return res
        tr = StepTrace(ss, rowsums=False)
        ok = True
        for seg in segs:
            ss.TDS.config.tf = seg
            ok = ss.TDS.run()
            if not ok:
                break
        acc = tr.accepted()
        xs, ys, selected = expected_columns(ss, sel)
        if selected:
            if list(ss.Output.xidx) != xs or list(ss.Output.yidx) != ys:
                res.violate("output_selection", "Output selection %s keeps x%s y%s, own resolution gives x%s y%s" % (
                    sel, list(ss.Output.xidx)[:8], list(ss.Output.yidx)[:8], xs[:8], ys[:8]), selection=sel)
                return res
        # which accepted steps are stored: the running count kcount is incremented after each accepted step
        keep = [k for k in range(len(acc)) if (k % save_every == 0)]
        exp_t = np.array([acc[k]["t"] for k in keep])
        exp_x = np.array([acc[k]["x"][xs] for k in keep]).reshape(len(keep), len(xs))
        exp_y = np.array([acc[k]["y"][ys] for k in keep]).reshape(len(keep), len(ys))
        tag = "%s sel=%s save_every=%d limit_store=%d/%d segs=%s" % (base, sel, save_every, limit_store, max_store, segs)

        # ---- (1) in memory (with limit_store only the not yet off-loaded tail is in memory)
        mt = np.array(ss.dae.ts.t)
        mx = np.array(ss.dae.ts.x)
        my = np.array(ss.dae.ts.y)
        if not limit_store:
            res.count("rows_compared_memory", len(mt))
            if len(mt) != len(exp_t) or not np.array_equal(mt, exp_t):
                res.violate("memory_rows", "%s: in-memory series has %d rows, %d accepted steps are due (first difference at %s)" % (
                    tag, len(mt), len(exp_t), first_diff(mt, exp_t)), tag=tag)
            elif not (np.array_equal(mx, exp_x) and np.array_equal(my, exp_y)):
                res.violate("memory_values", "%s: in-memory values differ from what the solver held (max |dx| %.3e, |dy| %.3e)" % (
                    tag, maxdiff(mx, exp_x), maxdiff(my, exp_y)), tag=tag)
        else:
            k0 = len(exp_t) - len(mt)
            res.count("rows_compared_memory", len(mt))
            if k0 < 0 or (len(mt) and (not np.array_equal(mt, exp_t[k0:]) or not np.array_equal(mx, exp_x[k0:]) or not np.array_equal(my, exp_y[k0:]))):
                res.violate("memory_tail", "%s: the in-memory tail (%d rows) is not the tail of the accepted steps" % (tag, len(mt)), tag=tag)
        if store_f and not limit_store and len(keep):
            F = np.array(ss.dae.ts.f)
            expf = np.array([acc[k]["f"] for k in keep])
            if F.shape != expf.shape or not np.array_equal(F, expf):
                res.violate("stored_f", "%s: stored f rows differ from the f held by the solver" % tag)
            else:
                res.count("stored_f_rows", len(F))

        # ---- (2) npz + lst
        npz, lst = ss.files.npz, ss.files.lst
        if not (os.path.isfile(npz) and os.path.isfile(lst)):
            res.violate("files_missing", "%s: output files were not written (%s, %s)" % (tag, os.path.isfile(npz), os.path.isfile(lst)))
            return res
        data = np.load(npz)["data"]
        res.count("rows_compared_npz", data.shape[0])
        if data.shape[0] != len(exp_t) or not np.array_equal(data[:, 0], exp_t):
            res.violate("npz_rows", "%s: npz has %d rows, %d are due (first difference at row %s)" % (
                tag, data.shape[0], len(exp_t), first_diff(data[:, 0] if data.size else np.zeros(0), exp_t)), tag=tag,
                limit_store=limit_store, nseg=len(segs))
        else:
            nx, ny = len(xs), len(ys)
            if data.shape[1] < 1 + nx + ny or not (np.array_equal(data[:, 1:1 + nx], exp_x) and np.array_equal(data[:, 1 + nx:1 + nx + ny], exp_y)):
                res.violate("npz_values", "%s: npz values differ from what the solver held (shape %s, expected %d+%d columns)" % (
                    tag, data.shape, nx, ny), tag=tag)
        # lst labels -> addresses
        names = []
        with open(lst) as f:
            for line in f:
                parts = [p.strip() for p in line.split(",")]
                names.append((int(float(parts[0])), parts[1]))
        owner_x, owner_y = {}, {}
        for mname, m in ss.models.items():
            if m.n == 0 or not m.flags.address:
                continue
            for vname, v in m.states.items():
                for i, a in enumerate(np.atleast_1d(v.a)):
                    owner_x[int(a)] = slot_name(vname, mname, m.idx.v[i])
            for vname, v in m.algebs.items():
                for i, a in enumerate(np.atleast_1d(v.a)):
                    owner_y[int(a)] = slot_name(vname, mname, m.idx.v[i])
        want = ["Time [s]"] + [owner_x[a] for a in xs] + [owner_y[a] for a in ys]
        got = [n for _, n in names][:len(want)]
        res.count("labels_resolved", len(got))
        if [i for i, _ in names] != list(range(len(names))):
            res.violate("lst_index", "%s: lst indices are not consecutive" % tag)
        if got != want:
            j = next((k for k in range(min(len(got), len(want))) if got[k] != want[k]), min(len(got), len(want)))
            res.violate("lst_label", "%s: lst column %d is labelled %r, that column holds %r" % (
                tag, j, got[j] if j < len(got) else None, want[j] if j < len(want) else None), tag=tag)
        # ---- (3) plotting loader in file mode: query by name pattern, values = the recorded series of that address
        try:
            plt = TDSData(full_name=lst, mode="file")
            if data.shape[0] == len(exp_t) and got == want and len(want) > 1:
                for q in range(4):
                    j = int(rng.integers(1, len(want)))
                    pat = "^" + re.escape(want[j]) + "$"
                    idxs, nm = plt.find(pat)
                    res.count("name_queries")
                    if idxs != [j]:
                        res.violate("find_wrong_column", "%s: TDSData.find(%r) -> %s, the column with that label is %d" % (tag, pat, idxs, j))
                        continue
                    vals = np.array(plt.get_values(idxs)).reshape(-1)
                    series = (exp_x[:, j - 1] if j - 1 < len(xs) else exp_y[:, j - 1 - len(xs)])
                    if not np.array_equal(vals, series):
                        res.violate("loader_values", "%s: TDSData values of %r differ from the recorded series" % (tag, want[j]))
            # ---- (4) csv export and replay
            csvp = os.path.join(sd, "export.csv")
            plt.export_csv(csvp)
            raw = np.loadtxt(csvp, delimiter=",", skiprows=1, ndmin=2)
            if raw.shape != data.shape or not np.array_equal(raw, data):
                res.violate("csv_values", "%s: csv export differs from the npz data (shapes %s vs %s)" % (tag, raw.shape, data.shape))
            with open(csvp) as f:
                hdr = f.readline().strip().split(",")
            if hdr[:len(want)] != want:
                res.violate("csv_header", "%s: csv header differs from the column labels" % tag)
            # export of a queried subset, in the order of the query (several queries concatenated are not ascending)
            if got == want and len(want) > 3 and raw.shape == data.shape:
                ksub = int(rng.integers(2, min(8, len(want))))
                sub = [int(i) for i in rng.choice(np.arange(0, len(want)), size=ksub, replace=False)]
                if rng.random() < 0.5:
                    pat_idx, _ = plt.find(want[sub[0]].split(" ")[0])        # a find() result followed by single columns
                    sub = list(pat_idx)[:5] + [i for i in sub if i not in pat_idx]
                csvs = os.path.join(sd, "export_subset.csv")
                plt.export_csv(csvs, idx=list(sub))
                res.count("csv_subset_exports")
                if sub != sorted(sub):
                    res.count("csv_subset_exports_not_ascending")
                with open(csvs) as f:
                    hdr2 = f.readline().strip().split(",")
                raw2 = np.loadtxt(csvs, delimiter=",", skiprows=1, ndmin=2)
                if len(hdr2) != len(sub) or raw2.shape != (data.shape[0], len(sub)) or sorted(hdr2) != sorted(want[i] for i in sub):
                    res.violate("csv_subset_shape", "%s: export_csv(idx=%s) wrote columns %s" % (tag, sub, hdr2))
                else:
                    for c, lab in enumerate(hdr2):
                        col = want.index(lab)
                        res.count("csv_subset_columns_checked")
                        if not np.array_equal(raw2[:, c], data[:, col]):
                            holds = [want[k] for k in sub if np.array_equal(raw2[:, c], data[:, k])]
                            res.violate("csv_subset_label", "%s: export_csv(idx=%s): the column labelled %r holds the values of %s" % (
                                tag, sub, lab, holds[:1] or "another variable"), tag=tag)
                            break
            if spec["index"] % 3 == 0 and data.shape[0] >= 2:
                # the replay itself stores every row it reads
                rc2 = au.write_rc(os.path.join(sd, "replay.rc"), {"TDS": dict(no_tqdm=1), "PFlow": dict(report=0)})
                ss2 = au.load(base, setup=False, config_path=rc2, no_output=True)
                for d in sel:
                    ss2.add("Output", dict(d))
                ss2.setup()
                ss2.PFlow.run()
                ok2 = ss2.TDS.run(from_csv=csvp)
                res.count("csv_replays")
                t2 = np.array(ss2.dae.ts.t)
                x2, y2 = np.array(ss2.dae.ts.x), np.array(ss2.dae.ts.y)
                # the replay advances time by t + (t_next - t): stamps may differ from the file in the last bits
                if len(t2) != len(exp_t) or not np.allclose(t2, exp_t, rtol=4e-16, atol=4e-16):
                    res.violate("csv_replay_rows", "%s: replay from csv gives %d rows (stamps differ at %s), the csv has %d" % (
                        tag, len(t2), first_diff(t2, exp_t), len(exp_t)), tag=tag)
                elif not (x2.shape == exp_x.shape and y2.shape == exp_y.shape and np.allclose(x2, exp_x, rtol=1e-14, atol=1e-14)
                          and np.allclose(y2, exp_y, rtol=1e-14, atol=1e-14)):
                    res.violate("csv_replay_values", "%s: replay from csv does not reproduce it (max |dx| %.3e |dy| %.3e)" % (
                        tag, maxdiff(x2, exp_x), maxdiff(y2, exp_y)), tag=tag)
        except Exception as e:
            res.violate("loader_raises", "%s: reading the written files raised %r" % (tag, e), tag=tag)
        # ---- (5) query by variable object
        if not limit_store and len(mt) == len(exp_t) and len(mt):
            m = [mm for mm in ss.models.values() if mm.n > 0 and len(mm.states) > 0]
            if m:
                mm = m[int(rng.integers(0, len(m)))]
                vname = list(mm.states)[int(rng.integers(0, len(mm.states)))]
                var = mm.states[vname]
                kept = [int(a) for a in np.atleast_1d(var.a) if int(a) in xs]
                gd = ss.dae.ts.get_data(var)
                res.count("get_data_queries")
                if kept:
                    expd = np.array([[acc[k]["x"][a] for a in kept] for k in keep])
                    if gd is None or gd.shape != expd.shape or not np.array_equal(gd, expd):
                        res.violate("get_data", "%s: ts.get_data(%s.%s) differs from the recorded series of its addresses" % (tag, mm.class_name, vname))
        res.sig = tag
        res.nontrivial = len(exp_t) >= 10
        res.sample = dict(base=base, selection=sel, save_every=save_every, limit_store=limit_store, max_store=max_store, segments=segs,
                          accepted=len(acc), stored=len(exp_t), columns=[len(xs), len(ys)], completed=bool(ok))
    return res


def first_diff(a, b):
    n = min(len(a), len(b))
    for i in range(n):
        if a[i] != b[i]:
            return "%d (%r vs %r)" % (i, float(a[i]), float(b[i]))
    return "%d (length)" % n


def maxdiff(a, b):
    if a.shape != b.shape:
        return float("nan")
    return float(np.max(np.abs(a - b))) if a.size else 0.0


def finding_key(w, spec):
    return w.get("mech")
