"""
C10 - Variable addressing is a bijection and external links follow device indices.

Monitor: post-conditions evaluated after every call of the real ``System.set_address`` (wrapped on
the instance: power-flow phase inside ``setup()``, dynamic phase inside ``TDS.init()``), with an own
idx -> device -> slot reconstruction, and the unique-value trick: every slot of dae.x / dae.y gets
its own number, after which reads through the variable, the model, the group and the global
vector must return the same number.
"""
import numpy as np

from vf.util import Result, rng_for

PROPERTY = "C10"
LEVEL = "exploration"
TIMEOUT = 900
RULE = ("stock cases as shipped and rebuilt device-by-device in a random global order with renamed (numeric <-> string) "
        "indices, models with zero devices in between, collated storage forced on random models; both addressing phases. "
        "Non-trivial: >= 50 external links and >= 50 slots checked; distinct = (case, order seed, rename style, collate set).")
ASSUMPTIONS = ["slot names follow the documented pattern '<var> <Model> <idx>' (model name omitted when the idx already contains it)"]
REQUIRED_OBS = {"slots_checked": 2000, "ext_links_checked": 2000, "unique_value_reads": 2000, "phases_checked": 20}

CASES = ["kundur/kundur_full.xlsx", "ieee14/ieee14_full.xlsx", "ieee39/ieee39_full.xlsx", "kundur/kundur_ieeest.xlsx",
         "ieee14/ieee14_wt3.xlsx", "ieee14/ieee14_pvd1.xlsx", "wecc/wecc_full.xlsx", "kundur/kundur_coi.xlsx", "npcc/npcc.xlsx",
         "kundur/kundur_vsc.xlsx", "ieee14/ieee14_esd1.xlsx", "kundur/kundur_motor.xlsx", "5bus/pjm5bus.xlsx", "smib/SMIB.xlsx",
         "kundur/kundur_pmu.xlsx", "ieee14/ieee14_dgprct1.xlsx", "ieee14/ieee14_regcp1.xlsx", "kundur/kundur_wtdta1.xlsx"]


def cases(tier, seed):
    out = []
    cs = CASES[:8] if tier == "quick" else CASES
    reps = 3 if tier == "quick" else 12
    for c in cs:
        out.append(dict(id="asis:" + c, kind="asis", case=c))
        for r in range(reps):
            out.append(dict(id="rebuilt:%s:%d" % (c, r), kind="rebuilt", case=c, index=r))
    return out


def worker_init():
    from vf import au
    au.quiet()


# ------------------------------------------------------------------------------------------------

def slot_name(var, model, idx):
    if isinstance(idx, str) and model in idx:
        s = idx
    else:
        s = "%s %s" % (model, idx)
    return ("%s %s" % (var, s)).replace("_", " ") if False else "%s %s" % (var, s.replace("_", " "))


def check_addresses(res, ss, tag, names=True):
    dae = ss.dae
    res.count("phases_checked")
    ox, oy = {}, {}
    nx = ny = 0
    for mname, m in ss.models.items():
        if m.n == 0 or not m.flags.address:
            continue
        for vname, v in m.states.items():
            nx += m.n
            for i, a in enumerate(np.atleast_1d(v.a)):
                ox.setdefault(int(a), []).append((mname, vname, m.idx.v[i]))
        for vname, v in m.algebs.items():
            ny += m.n
            for i, a in enumerate(np.atleast_1d(v.a)):
                oy.setdefault(int(a), []).append((mname, vname, m.idx.v[i]))
    for arr, owners, size, cnt, nm in (("x", ox, dae.n, nx, dae.x_name), ("y", oy, dae.m, ny, dae.y_name)):
        res.count("slots_checked", size)
        if cnt != size:
            res.violate("size_mismatch", "%s: dae.%s has %d slots, the models declare %d internal variables" % (tag, "n" if arr == "x" else "m", size, cnt))
        if sorted(owners) != list(range(size)):
            missing = sorted(set(range(size)) - set(owners))[:5]
            extra = sorted(set(owners) - set(range(size)))[:5]
            res.violate("not_bijection", "%s: owned %s-slots are not exactly 0..%d (unowned %s, out of range %s)" % (tag, arr, size - 1, missing, extra))
        dup = [(a, o) for a, o in owners.items() if len(o) > 1]
        if dup:
            res.violate("slot_shared", "%s: %s-slot %d is owned by %s" % (tag, arr, dup[0][0], dup[0][1]))
        if names:
            for a, o in owners.items():
                if len(o) != 1 or a >= len(nm):
                    continue
                mname, vname, idx = o[0]
                want = slot_name(vname, mname, idx)
                if nm[a] != want:
                    res.violate("slot_name", "%s: %s-slot %d is named %r, it belongs to %r" % (tag, arr, a, nm[a], want))
                    break
    # ---- external variables: address of `src` of the device named by the indexer
    for mname, m in ss.models.items():
        if m.n == 0 or not m.flags.address:
            continue
        for vname, ev in m.cache.vars_ext.items():
            parent = ss.__dict__[ev.model]
            idxs = ev.indexer.v if ev.indexer is not None else None
            if idxs is None:
                continue
            if len(idxs) and isinstance(idxs[0], (list, np.ndarray)):
                idxs = [j for sub in idxs for j in sub]
            exp = []
            for k in idxs:
                if k is None or (isinstance(k, float) and k != k):
                    exp.append(None)
                    continue
                pm = parent if ev.model in ss.models else parent._idx2model.get(k)
                if pm is None or k not in pm.uid:
                    exp.append("missing")
                    continue
                pos = list(pm.idx.v).index(k)
                exp.append(int(np.atleast_1d(pm.__dict__[ev.src].a)[pos]))
            got = [int(a) for a in np.atleast_1d(ev.a)]
            if len(got) != len(exp):
                res.violate("ext_link_length", "%s: %s.%s has %d addresses for %d indices" % (tag, mname, vname, len(got), len(exp)))
                continue
            for k, g, e in zip(idxs, got, exp):
                if e is None:
                    continue
                res.count("ext_links_checked")
                if e == "missing" or g != e:
                    res.violate("ext_link_wrong_device", "%s: %s.%s for %s=%r points to slot %r, the %s of that device is at %r" % (
                        tag, mname, vname, ev.indexer.name, k, g, ev.src, e), model=mname, var=vname)
                    break


def check_ext_values(res, ss, tag):
    for mname, m in ss.models.items():
        if m.n == 0:
            continue
        for pname, ep in m.params_ext.items():
            if ep.indexer is None:
                continue
            parent = ss.__dict__[ep.model]
            for i, k in enumerate(ep.indexer.v):
                if k is None or (isinstance(k, float) and k != k) or isinstance(k, (list, np.ndarray)):
                    continue
                pm = parent if ep.model in ss.models else parent._idx2model.get(k)
                if pm is None or k not in pm.uid or ep.src not in pm.__dict__:
                    continue
                pos = list(pm.idx.v).index(k)
                src = pm.__dict__[ep.src]
                want = src.v[pos]
                got = ep.v[i]
                res.count("ext_params_checked")

                def isnone(z):
                    return z is None or (isinstance(z, (float, np.floating)) and z != z)

                def eq(a, b):
                    if isnone(a) and isnone(b):
                        return True
                    try:
                        return bool(a == b) or float(a) == float(b)
                    except (TypeError, ValueError):
                        return str(a) == str(b)
                ok = eq(got, want)
                if not ok and getattr(src, "vin", None) is not None and eq(got, src.vin[pos]):
                    # the borrowed copy was taken before per-unit conversion of the source
                    res.violate("ext_param_input_base_copy", "%s: %s.%s[%d] = %r is the INPUT-base value of %s.%s of device %r, whose "
                                "system-base value is %r" % (tag, mname, pname, i, got, pm.class_name, ep.src, k, want),
                                model=mname, param=pname)
                    break
                if not ok:
                    res.violate("ext_param_wrong_device", "%s: %s.%s[%d] = %r, %s.%s of device %r is %r" % (
                        tag, mname, pname, i, got, pm.class_name, ep.src, k, want))
                    break


def unique_value_trick(res, ss, tag):
    dae = ss.dae
    x0, y0 = dae.x.copy(), dae.y.copy()
    try:
        dae.x[:] = 1000.0 + np.arange(dae.n)
        dae.y[:] = 500000.0 + np.arange(dae.m)
        ss.vars_to_models()
        for mname, m in ss.models.items():
            if m.n == 0 or not m.flags.address:
                continue
            for kind, base, arr in (("states", 1000.0, dae.x), ("algebs", 500000.0, dae.y)):
                for vname, v in getattr(m, kind).items():
                    for i in range(m.n):
                        a = int(np.atleast_1d(v.a)[i])
                        want = base + a
                        idx = m.idx.v[i]
                        r1 = v.v[i]
                        r2 = m.get(vname, idx, "v")
                        r3 = arr[a]
                        res.count("unique_value_reads", 3)
                        if not (r1 == want and r2 == want and r3 == want):
                            res.violate("read_paths_disagree", "%s: %s.%s of device %r: variable=%r model.get=%r vector=%r (slot %d holds %r)" % (
                                tag, mname, vname, idx, r1, r2, r3, a, want))
                            return
                        grp = ss.groups[m.group]
                        if vname in grp.common_vars:
                            r4 = grp.get(vname, idx, "v")
                            res.count("unique_value_reads")
                            if r4 != want:
                                res.violate("read_paths_disagree", "%s: group %s.get(%s, %r) = %r, slot holds %r" % (tag, grp.class_name, vname, idx, r4, want))
                                return
            for vname, ev in m.cache.vars_ext.items():
                base = 1000.0 if ev.v_code == "x" else 500000.0
                vv = np.atleast_1d(ev.v)
                aa = np.atleast_1d(ev.a)
                if len(vv) != len(aa):
                    continue
                # slot 0 doubles as the placeholder address for a None indexer: skip entries whose indexer is None
                idxs = ev.indexer.v if ev.indexer is not None else [0] * len(aa)
                if len(idxs) and isinstance(idxs[0], (list, np.ndarray)):
                    idxs = [j for sub in idxs for j in sub]
                for i in range(len(aa)):
                    if i < len(idxs) and idxs[i] is None:
                        continue
                    res.count("unique_value_reads")
                    if vv[i] != base + aa[i]:
                        res.violate("ext_value_not_from_slot", "%s: %s.%s[%d] reads %r, its slot %d holds %r" % (tag, mname, vname, i, vv[i], aa[i], base + aa[i]))
                        return
    finally:
        dae.x[:] = x0
        dae.y[:] = y0
        ss.vars_to_models()


def install(res, ss, tag):
    orig = ss.set_address

    def wrapped(models):
        r = orig(models)
        # names are written by set_dae_names right after: they are checked at the end of the phase
        check_addresses(res, ss, tag + "/set_address(%d models)" % len(models), names=False)
        return r
    ss.set_address = wrapped


def run_system(res, ss, tag):
    install(res, ss, tag)
    ok = ss.setup()
    if not ok:
        res.violate("setup_failed", "%s: setup() returned False" % tag)
        return
    check_addresses(res, ss, tag + "/after-setup")
    check_ext_values(res, ss, tag + "/after-setup")
    unique_value_trick(res, ss, tag + "/after-setup")
    if not ss.PFlow.run():
        res.note("power flow failed")
        return
    ss.TDS.config.no_tqdm = 1
    ss.TDS.init()
    check_addresses(res, ss, tag + "/after-TDS.init")
    check_ext_values(res, ss, tag + "/after-TDS.init")
    unique_value_trick(res, ss, tag + "/after-TDS.init")
    return True


def run_asis(spec, res):
    from vf import au
    ss = au.load(spec["case"], setup=False)
    run_system(res, ss, spec["case"])
    res.sig = "asis:" + spec["case"]
    res.nontrivial = res.obs.get("ext_links_checked", 0) >= 50 and res.obs.get("slots_checked", 0) >= 50
    res.sample = dict(case=spec["case"], n=int(ss.dae.n), m=int(ss.dae.m), ext_links=res.obs.get("ext_links_checked", 0))


def harvest_devices(ss0):
    """All devices of an un-set-up system as (model, dict) in file order."""
    items = []
    for mname, m in ss0.models.items():
        if m.n == 0:
            continue
        d = m.as_dict()
        n = m.n
        for i in range(n):
            row = {}
            for k, vals in d.items():
                if k == "uid":
                    continue
                v = vals[i]
                if isinstance(v, (np.floating, np.integer)):
                    v = v.item()
                row[k] = v
            if hasattr(m, "idx"):
                row["idx"] = m.idx.v[i]
            items.append((mname, row))
    return items


def run_rebuilt(spec, res):
    """Re-enter the devices of a case in a random global order, with renamed indices and collated storage
    forced on random models; links are resolved by idx at setup, so the result must be the same system."""
    from vf import au
    rng = rng_for(spec.get("seed", 0), PROPERTY, spec["index"], abs(hash(spec["case"])) % 9973)
    ss0 = au.load(spec["case"], setup=False)
    items = harvest_devices(ss0)
    style = ["keep", "bus-str", "all-str"][int(rng.integers(0, 3))]
    # renaming: consistent over every IdxParam that refers to the renamed group
    rename = {}
    if style != "keep":
        for gname, g in ss0.groups.items():
            if style == "bus-str" and gname != "ACTopology":
                continue
            for k in g._idx2model:
                if not isinstance(k, str):
                    rename[(gname, k)] = "%s#%s" % (gname[:3], k)

    def ren(target, v):
        """target: model or group name the value refers to"""
        if v is None or (isinstance(v, float) and v != v):
            return v
        g = target if target in ss0.groups else (ss0.models[target].group if target in ss0.models else None)
        if g is None:
            return v
        if isinstance(v, (list, np.ndarray)):
            return [ren(target, x) for x in v]
        return rename.get((g, v), v)
    new_items = []
    for mname, row in items:
        m = ss0.models[mname]
        row = dict(row)
        if "idx" in row:
            row["idx"] = ren(mname, row["idx"])
        for pname, p in m.idx_params.items():
            if pname not in row:
                continue
            target = p.model
            if target is None:
                # some index fields are declared without a target (e.g. BusFreq.bus, REGCA1.gen): the target is
                # the model/group of whatever external parameter, service or variable uses the field as indexer
                for ext in list(m.params_ext.values()) + list(m.services_ext.values()) + list(m.cache.vars_ext.values()):
                    if getattr(ext, "indexer", None) is p:
                        target = ext.model
                        break
            if target is not None:
                row[pname] = ren(target, row[pname])
            elif pname in row and p.model is None and mname in ("Toggle", "Alter") and pname == "dev":
                row[pname] = ren(row.get("model"), row[pname])
        new_items.append((mname, row))
    order = rng.permutation(len(new_items))
    ss = au.new_system()
    ss.files.case_path = ss0.files.case_path
    ss.files.case = ss0.files.case
    for i in order:
        mname, row = new_items[int(i)]
        ss.add(mname, dict(row))
    collated = []
    if spec["index"] % 3 == 2:
        for mname, m in ss.models.items():
            if m.n > 0 and rng.random() < 0.25 and mname != "Bus":
                m.flags.collate = True
                collated.append(mname)
    tag = "%s rebuilt(%s, collate=%s)" % (spec["case"], style, collated[:4])
    try:
        done = run_system(res, ss, tag)
    except Exception as e:
        res.violate("rebuilt_raises", "%s raised %r" % (tag, e), style=style)
        done = None
    if done:
        # same physical system => same dynamic initial point, slot by slot (matched through names)
        ref = au.load(spec["case"])
        if ref.PFlow.run():
            ref.TDS.config.no_tqdm = 1
            ref.TDS.init()
            inv = {v: k for k, v in rename.items()}

            def key(name):
                return name
            refx = {}
            for mname, m in ref.models.items():
                if m.n == 0 or not m.flags.address:
                    continue
                for vname, v in list(m.states.items()) + list(m.algebs.items()):
                    for i in range(m.n):
                        refx[(mname, vname, m.idx.v[i])] = float(v.v[i])
            cmp_n = 0
            worst = 0.0
            for mname, m in ss.models.items():
                if m.n == 0 or not m.flags.address:
                    continue
                for vname, v in list(m.states.items()) + list(m.algebs.items()):
                    for i in range(m.n):
                        k = m.idx.v[i]
                        k0 = inv.get(k, (None, k))[1] if k in inv else k
                        if (mname, vname, k0) in refx:
                            cmp_n += 1
                            worst = max(worst, abs(refx[(mname, vname, k0)] - float(v.v[i])))
            res.count("values_compared_with_reference_order", cmp_n)
            res.maxobs("max_init_difference_vs_file_order", worst)
            if worst > 1e-6:
                # mechanism seen on the pinned tree: variables of a collated power-flow model are not views of the global
                # vector; TDS.init restores the power-flow solution into dae.y and then ADDS the model copies again
                pf_coll = [c for c in collated if ss.models[c].flags.pflow and (len(ss.models[c].algebs) + len(ss.models[c].states)) > 0]
                res.violate("collate_pflow_model_double_count" if pf_coll else "order_changes_result",
                            "%s: initial values differ from the file-order system by %.3e (collated power-flow models with own "
                            "variables: %s; init reported %s)" % (tag, worst, pf_coll, ss.TDS.test_ok), style=style, collated=pf_coll)
    res.sig = "rebuilt:%s:%d:%s:%s" % (spec["case"], spec["index"], style, collated)
    res.nontrivial = res.obs.get("ext_links_checked", 0) >= 50
    res.sample = dict(case=spec["case"], style=style, collated=collated[:6], devices=len(new_items), compared=res.obs.get("values_compared_with_reference_order", 0))


def run_case(spec):
    res = Result(spec)
    {"asis": run_asis, "rebuilt": run_rebuilt}[spec["kind"]](spec, res)
    return res


def finding_key(w, spec):
    return w.get("mech")
