"""
C07 (c) - multi-machine classical-model benchmark.

Generated meshed networks (the C01 generator: off-nominal taps, phase shifters, per-branch MVA bases, shunts, several loads per
bus) in which every generator carries a GENCLS machine on its own MVA base, disturbed by a bus fault (rf + j xf to ground,
applied and cleared) and / or a branch trip (optionally reclosed).  ANDES treats PQ loads as constant impedances in a
time-domain run (default p2z = q2z = 1), so the whole system reduces to the textbook classical multi-machine model

    delta_i' = 2 pi f (w_i - 1),   M_i w_i' = Pm_i - Re(E_i conj(sum_j Yred_ij E_j)) - D_i (w_i - 1),   E_i = |E_i| exp(j delta_i)

with Yred the Kron reduction (own code) of the bus admittance matrix of the *input data* (vf.oracle.powerflow.ybus) extended by
load admittances conj(S)/|V0|^2, the machines' ra + j x'd and the fault shunt, one matrix per switching interval.  The reference is
integrated with solve_ivp(DOP853, rtol 1e-11).  |E|, delta0, Pm come from the power-flow voltages and the oracle's admittance
model, not from ANDES' initialiser.

ANDES resolves a switching instant with 1e-4 s steps whose first one re-uses the pre-event derivative: a second reference
integration that applies exactly that impulse (0.5e-4 x jump of the right-hand side) measures the h-independent floor this
documented event treatment leaves; the floor used in the verdicts is that measured distance, not a constant.
"""
import os

import numpy as np

from vf.util import rng_for

PROPERTY = "C07"
TF = 2.0
F0 = 60.0


def gen_mm(rng):
    from vf.gen import network as gnet
    from vf.oracle import powerflow as opf
    for _ in range(30):
        nb = int(rng.integers(4, 11))
        net = gnet.gen_network(rng, nbus=nb, hard=True)
        d = gnet.to_oracle(net)
        r = opf.solve(d)
        if not r["converged"]:
            continue
        gens = [g for g in net["pv"] + net["slack"] if g["u"]]
        if len(gens) < 2:
            continue
        # generator outputs in the design solution must be positive and moderate (machines, not condensers or motors)
        V = r["V"]
        pos = {b["idx"]: i for i, b in enumerate(net["bus"])}
        Sg = r["Sgen"]
        ok = all(0.05 < Sg[pos[g["bus"]]].real < 3.0 for g in gens)
        if not ok:
            continue
        break
    else:
        return None
    mach = []
    for g in gens:
        Sn = float(rng.choice([100.0, 200.0, 500.0]))
        kb = Sn / net["mva"]
        pg = float(Sg[pos[g["bus"]]].real)
        if pg > 0.9 * kb:
            Sn = float(np.ceil(pg * net["mva"] / 0.8 / 50.0) * 50.0)
            kb = Sn / net["mva"]
        M = float(rng.uniform(3.0, 12.0))
        mach.append(dict(idx="M_%s" % g["idx"], gen=g["idx"], bus=g["bus"], Sn=Sn, M=M, D=float(rng.choice([0.0, 1.0, 3.0])),
                         xd1=float(rng.uniform(0.15, 0.4)), ra=float(rng.choice([0.0, 0.0, 0.005]))))
    ev = []
    kind = int(rng.integers(0, 3))
    if kind in (0, 2):
        b = net["bus"][int(rng.integers(0, nb))]["idx"]
        t1 = float(np.round(rng.uniform(0.1, 0.4), 3))
        ev.append(dict(kind="fault", bus=b, tf=t1, tc=float(np.round(t1 + rng.uniform(0.04, 0.1), 3)),
                       xf=float(rng.choice([1e-4, 0.01, 0.05])), rf=float(rng.choice([0.0, 0.0, 0.01]))))
    if kind in (1, 2):
        # trip a branch whose removal keeps the network connected (a chord of the generated spanning tree)
        chords = [ln for k, ln in enumerate(net["line"]) if k >= nb - 1 and ln["u"]]
        if chords:
            ln = chords[int(rng.integers(0, len(chords)))]
            t1 = float(np.round(rng.uniform(0.45, 0.8), 3))
            e = dict(kind="trip", line=ln["idx"], t=t1, tclose=None)
            if rng.random() < 0.5:
                e["tclose"] = float(np.round(t1 + rng.uniform(0.1, 0.4), 3))
            ev.append(e)
        elif not ev:
            b = net["bus"][int(rng.integers(0, nb))]["idx"]
            ev.append(dict(kind="fault", bus=b, tf=0.2, tc=0.27, xf=0.01, rf=0.0))
    # a branch that is out of service in the power flow and switched IN during the run (same Toggle device, other direction)
    off_chords = [ln for k, ln in enumerate(net["line"]) if k >= nb - 1 and not ln["u"]]
    used = set(e.get("line") for e in ev)
    on_chords = [ln for k, ln in enumerate(net["line"]) if k >= nb - 1 and ln["u"] and ln["idx"] not in used]
    if not off_chords and on_chords and rng.random() < 0.5:
        # take a chord out of service for the power flow (the network stays connected); keep it only if the own solver
        # still certifies the network and the machines still generate
        ln = on_chords[int(rng.integers(0, len(on_chords)))]
        ln["u"] = 0
        r2 = opf.solve(gnet.to_oracle(net))
        if r2["converged"] and all(0.05 < r2["Sgen"][pos[g["bus"]]].real < 3.0 for g in gens):
            off_chords = [ln]
        else:
            ln["u"] = 1
    if off_chords and rng.random() < 0.7:
        ln = off_chords[int(rng.integers(0, len(off_chords)))]
        ev.append(dict(kind="trip", line=ln["idx"], t=float(np.round(rng.uniform(0.85, 1.2), 3)), tclose=None, closes=True))
    return dict(net=net, mach=mach, ev=ev)


def build(p, rc):
    from vf.gen import network as gnet
    net = p["net"]
    ss = gnet.build_system(net, setup=False, config_path=rc)
    vn = {b["idx"]: b["Vn"] for b in net["bus"]}
    for m in p["mach"]:
        ss.add("GENCLS", dict(idx=m["idx"], bus=m["bus"], gen=m["gen"], Sn=m["Sn"], Vn=vn[m["bus"]], fn=F0, M=m["M"], D=m["D"],
                              xd1=m["xd1"], ra=m["ra"]))
    for e in p["ev"]:
        if e["kind"] == "fault":
            ss.add("Fault", dict(bus=e["bus"], tf=e["tf"], tc=e["tc"], xf=e["xf"], rf=e["rf"]))
        else:
            ss.add("Toggle", dict(model="Line", dev=e["line"], t=e["t"]))
            if e["tclose"] is not None:
                ss.add("Toggle", dict(model="Line", dev=e["line"], t=e["tclose"]))
    ss.setup()
    return ss


def simulate(p, h, method, sd, tag):
    from vf import au
    rc = au.write_rc(os.path.join(sd, "m_%s.rc" % tag), {"TDS": dict(tstep=repr(h), tf=repr(TF), method=method, tol="1e-9", no_tqdm=1, criteria=0, max_iter=30),
                                                        "PFlow": dict(report=0, tol="1e-12"), "System": dict(freq=F0)})
    ss = build(p, rc)
    ss.config.mva = p["net"]["mva"]
    if not ss.PFlow.run():
        return None
    V = np.array(ss.Bus.v.v) * np.exp(1j * np.array(ss.Bus.a.v))
    if not ss.TDS.run():
        return None
    t = np.array(ss.dae.ts.t)
    X = np.array(ss.dae.ts.x)
    Yv = np.array(ss.dae.ts.y)
    order = {idx: k for k, idx in enumerate(ss.GENCLS.idx.v)}
    cols_d = [int(ss.GENCLS.delta.a[order[m["idx"]]]) for m in p["mach"]]
    cols_w = [int(ss.GENCLS.omega.a[order[m["idx"]]]) for m in p["mach"]]
    bpos = {idx: k for k, idx in enumerate(ss.Bus.idx.v)}
    cols_v = [int(ss.Bus.v.a[bpos[b["idx"]]]) for b in p["net"]["bus"]]
    # ANDES' step heuristic shortens the step after slowly converging iterations even with fixt = 1: the share of such steps
    # tells whether the run is a fixed-step sequence (only those carry order information)
    dt = np.diff(t)
    short = float(np.mean((dt < 0.9 * h) & (dt > 2.5e-4))) if len(dt) else 0.0
    return dict(short_steps=short, t=t, delta=X[:, cols_d], omega=X[:, cols_w], vbus=Yv[:, cols_v], V=np.array([V[bpos[b["idx"]]] for b in p["net"]["bus"]]))


def reference(p, V0, tgrid, impulse=False):
    """Classical multi-machine reference.  V0: complex power-flow bus voltages in the order of net['bus']."""
    from scipy.integrate import solve_ivp
    from vf.gen import network as gnet
    from vf.oracle import powerflow as opf
    net = p["net"]
    Sb = net["mva"]
    nb = len(net["bus"])
    pos = {b["idx"]: i for i, b in enumerate(net["bus"])}
    lpos = {ln["idx"]: k for k, ln in enumerate(net["line"])}
    d = gnet.to_oracle(net)
    d["line_eps"] = opf.LINE_EPS            # ANDES' documented regularisation of r and x
    # loads as constant admittances at the power-flow voltage
    Sl, _ = opf.load_power(d, np.abs(V0))
    yl = np.conj(Sl) / np.abs(V0) ** 2
    m = len(p["mach"])
    gb = np.array([pos[mm["bus"]] for mm in p["mach"]], dtype=int)
    kb = np.array([mm["Sn"] / Sb for mm in p["mach"]])
    zg = np.array([complex(mm["ra"], mm["xd1"]) for mm in p["mach"]]) / kb
    yg = 1.0 / zg
    Msys = np.array([mm["M"] for mm in p["mach"]]) * kb
    Dsys = np.array([mm["D"] for mm in p["mach"]]) * kb
    Y0 = opf.ybus(d)
    Ig = (Y0 @ V0 + yl * V0)[gb]            # generator current = network + load current at its bus (one machine per bus)
    E0 = V0[gb] + zg * Ig
    Emag, delta0 = np.abs(E0), np.angle(E0)

    def reduced(line_u, fault):
        dd = dict(d)
        dd["line"] = dict(d["line"])
        dd["line"]["u"] = np.array(line_u, dtype=float)
        Y = opf.ybus(dd) + np.diag(yl)
        if fault is not None:
            Y[pos[fault["bus"]], pos[fault["bus"]]] += 1.0 / complex(fault["rf"], fault["xf"])
        Ybg = np.zeros((nb, m), dtype=complex)
        for k in range(m):
            Y[gb[k], gb[k]] += yg[k]
            Ybg[gb[k], k] -= yg[k]
        W = np.linalg.solve(Y, Ybg)        # bus voltages = -W @ E
        Yr = np.diag(yg) - Ybg.T @ W
        return Yr, -W

    # switching schedule
    times = set()
    for e in p["ev"]:
        if e["kind"] == "fault":
            times.update([e["tf"], e["tc"]])
        else:
            times.add(e["t"])
            if e["tclose"] is not None:
                times.add(e["tclose"])
    breaks = [0.0] + sorted(t for t in times if 0 < t < TF) + [TF]

    def config_at(t):
        u = np.array(d["line"]["u"], dtype=float).copy()
        fault = None
        for e in p["ev"]:
            if e["kind"] == "fault":
                if e["tf"] <= t < e["tc"]:
                    fault = e
            else:
                if e["t"] <= t:
                    u[lpos[e["line"]]] = 1 - u[lpos[e["line"]]]
                if e["tclose"] is not None and e["tclose"] <= t:
                    u[lpos[e["line"]]] = 1 - u[lpos[e["line"]]]
        return u, fault

    def rhs_of(Yr):
        def rhs(t, y):
            dl, w = y[:m], y[m:]
            E = Emag * np.exp(1j * dl)
            pe = (E * np.conj(Yr @ E)).real
            return np.concatenate([2 * np.pi * F0 * (w - 1.0), (Pm - pe - Dsys * (w - 1.0)) / Msys])
        return rhs

    Yr0, _ = reduced(*config_at(0.0))
    E = Emag * np.exp(1j * delta0)
    Pm = (E * np.conj(Yr0 @ E)).real
    y0 = np.concatenate([delta0, np.ones(m)])
    T, Yv, Vb = [0.0], [y0.copy()], [np.abs(V0)]
    prev_rhs = None
    for k in range(len(breaks) - 1):
        a, b = breaks[k], breaks[k + 1]
        Yr, Wv = reduced(*config_at(a))
        rhs = rhs_of(Yr)
        if impulse and prev_rhs is not None:
            # ANDES' first step after an event (1e-4 s, trapezoidal) uses the pre-event derivative as f0
            y0 = y0 + 0.5e-4 * (prev_rhs(a, y0) - rhs(a, y0))
        tg = sorted(set([t for t in tgrid if a < t <= b + 1e-12] + [b]))
        sol = solve_ivp(rhs, (a, b), y0, method="DOP853", rtol=1e-11, atol=1e-12, t_eval=tg)
        for t, col in zip(sol.t, sol.y.T):
            if t > T[-1]:
                T.append(float(t))
                Yv.append(col.copy())
                Vb.append(np.abs(Wv @ (Emag * np.exp(1j * col[:m]))))
        y0 = sol.y[:, -1]
        prev_rhs = rhs
    return np.array(T), np.array(Yv), np.array(Vb), dict(Emag=Emag, delta0=delta0, Pm=Pm, breaks=breaks)


def run_mm(spec, res):
    from vf import au
    rng = rng_for(spec.get("seed", 0), PROPERTY, 3, spec["index"])
    method = spec["method"]
    hs = [1 / 30, 1 / 60, 1 / 120, 1 / 240] if method == "trapezoid" else [1 / 240, 1 / 480, 1 / 960, 1 / 1920]
    for attempt in range(6):
        p = gen_mm(rng)
        if p is None:
            continue
        with au.Scratch("c07") as sd:
            runs = [simulate(p, h, method, sd, "%d" % k) for k, h in enumerate(hs)]
        if any(r is None for r in runs):
            res.count("mm_rejected_unstable_or_infeasible")
            continue
        V0 = runs[-1]["V"]
        m = len(p["mach"])
        pts = sorted(set([b for b in _breaks(p) if 0 < b <= TF] + [TF] + [k / 30 for k in range(1, int(min(_breaks(p)[1:]) * 30))]))
        T, Y, Vb, info = reference(p, V0, pts)
        T2, Y2, Vb2, _ = reference(p, V0, pts, impulse=True)
        rel = Y[:, :m] - Y[:, :1]                     # angles relative to the first machine: synchronism
        if not np.all(np.isfinite(Y)) or np.max(np.abs(rel - rel[0])) > 2.5:
            res.count("mm_rejected_unstable_or_infeasible")
            continue
        break
    else:
        res.inconc("no stable multi-machine sample in 6 draws")
        return
    res.count("mm_runs", len(hs))
    res.count("mm_machines", m)
    res.count("mm_branches_switched_in", sum(1 for e in p["ev"] if e.get("closes")))
    res.count("mm_faults", sum(1 for e in p["ev"] if e["kind"] == "fault"))
    res.count("mm_branch_trips", sum(1 for e in p["ev"] if e["kind"] == "trip" and not e.get("closes")))
    amp = float(np.max(np.abs(Y[:, :m] - Y[0, :m])))
    tag = "multi-machine %d buses %d machines events %s (%s)" % (len(p["net"]["bus"]), m, [
        {k: v for k, v in e.items()} for e in p["ev"]], method)
    # independent steady state = ANDES' initial point
    r0 = runs[-1]
    d0 = float(np.max(np.abs(r0["delta"][0] - info["delta0"])))
    if d0 > 1e-6:
        res.violate("mm_initial_angle", "%s: initial rotor angles differ from the own derivation from the power-flow voltages by %.3e" % (tag, d0))

    def at(series_t, series, tp, tol=1e-12):
        ia = np.where(np.abs(series_t - tp) < tol)[0]
        return series[ia[-1]] if len(ia) else None
    # a bus that ANDES holds at zero voltage during a whole switching interval while the (linear, constant-impedance) network has a
    # unique solution with a definite voltage there: Newton's method settled on the spurious root V = 0 of the power-form equations
    br = info["breaks"]
    mids = [0.5 * (br[k] + br[k + 1]) for k in range(1, len(br) - 1)]
    Tm, _, Vm, _ = reference(p, V0, mids)
    dead, faulted = [], False
    for k in range(1, len(br) - 1):
        ia = np.where((r0["t"] > br[k] + 2e-4) & (r0["t"] < br[k + 1] - 2e-4))[0]
        ib = np.where(np.abs(Tm - mids[k - 1]) < 1e-9)[0]
        if not len(ia) or not len(ib):
            continue
        vmax_andes = np.max(np.abs(r0["vbus"][ia]), axis=0)
        for j in range(len(vmax_andes)):
            if vmax_andes[j] < 1e-6 and Vm[ib[0]][j] > 0.05:
                bidx = p["net"]["bus"][j]["idx"]
                dead.append((bidx, round(br[k], 4), round(br[k + 1], 4), round(float(Vm[ib[0]][j]), 3)))
                faulted = faulted or any(e["kind"] == "fault" and e["bus"] == bidx for e in p["ev"])
    res.count("mm_intervals_inspected_for_zero_voltage", len(mids))
    if dead:
        res.violate("mm_zero_voltage_root_at_fault" if faulted else "mm_zero_voltage_root",
                    "%s: ANDES holds |V| < 1e-6 over a whole switching interval and reports success, while the network equations have a unique "
                    "solution with a definite voltage there - (bus, from, to, reference |V|): %s" % (tag, dead), buses=dead, faulted=faulted)
        res.sig = "mm|%s|%d" % (method, spec["index"])
        res.nontrivial = True
        res.sample = dict(kind="mm", buses=len(p["net"]["bus"]), events=p["ev"], method=method, zero_voltage=dead)
        return
    errs, floors = [], 0.0
    for tp in pts:
        a, b = at(T, Y[:, :m], tp, 1e-9), at(T2, Y2[:, :m], tp, 1e-9)
        if a is not None and b is not None:
            floors = max(floors, float(np.max(np.abs(a - b))))
    floor = 1.5 * floors + 1e-7
    verr = []
    for r in runs:
        e, ev_ = 0.0, 0.0
        for tp in pts:
            got, ref = at(r["t"], r["delta"], tp), at(T, Y[:, :m], tp, 1e-9)
            if got is not None and ref is not None:
                e = max(e, float(np.max(np.abs(got - ref))))
            gv, rv = at(r["t"], r["vbus"], tp), at(T, Vb, tp, 1e-9)
            if gv is not None and rv is not None and tp not in info["breaks"][1:-1]:
                ev_ = max(ev_, float(np.max(np.abs(gv - rv))))
        errs.append(e)
        verr.append(ev_)
    dds = []
    for k_ in range(len(runs) - 1):
        dd = 0.0
        for tp in pts:
            a, b = at(runs[k_]["t"], runs[k_]["delta"], tp), at(runs[k_ + 1]["t"], runs[k_ + 1]["delta"], tp)
            if a is not None and b is not None:
                dd = max(dd, float(np.max(np.abs(a - b))))
        dds.append(dd)
    orders = [float(np.log2(errs[i] / errs[i + 1])) if errs[i + 1] > 0 else float("nan") for i in range(3)]
    res.count("order_estimates", 2)
    res.maxobs("max_mm_finest_error_over_amplitude", errs[-1] / max(amp, 1e-12))
    res.maxobs("max_mm_event_floor_over_amplitude", floor / max(amp, 1e-12))
    pw = 4.0 if method == "trapezoid" else 2.0
    lo, hi = (1.6, 2.4) if method == "trapezoid" else (0.75, 1.3)
    irregular = max(r["short_steps"] for r in runs) > 0.05
    if irregular:
        # more than 5 % of the steps were shortened by the iteration-count heuristic: not a fixed-step sequence, the order and
        # Richardson clauses do not apply (the accuracy clause on the finest run still does)
        res.count("mm_order_undecided_step_control_active")
    if amp > 1e-3 and irregular:
        if method == "trapezoid" and errs[-1] > 0.02 * amp + floor:
            res.violate("mm_accuracy", "%s: finest step h=%.5f is %.3e away from the reference (2 %% of the swing amplitude %.3e + floor %.1e)" % (
                tag, hs[-1], errs[-1], amp, floor), method=method, level=len(hs) - 1)
    elif amp > 1e-3:
        def asymptotic(k_):
            j_ = min(k_, len(dds) - 2)
            ratio = dds[j_] / dds[j_ + 1] if dds[j_ + 1] > 0 else float("inf")
            return pw / 1.5 <= ratio <= pw * 1.5
        pairs = [(o, e2, k_) for k_, (o, e1, e2) in enumerate(zip(orders, errs, errs[1:])) if e2 > 3.2 * floor]
        if not pairs:
            res.count("order_undecided_errors_at_floor")
        # convergence: the finest pair above the floor shrinks and the finest level is better than the coarsest (a coarse pair may
        # be pre-asymptotic: the maximum over the comparison points can move between levels)
        if pairs and (pairs[-1][0] <= 0.0 or errs[pairs[-1][2] + 1] >= errs[0]):
            res.violate("mm_order", "%s: errors vs the classical multi-machine reference %s do not shrink under step refinement (orders %s, event floor %.2e)" % (
                tag, ["%.3e" % e for e in errs], ["%.2f" % o for o in orders], floor), method=method)
        else:
            asy = [(o, k_) for o, _, k_ in pairs if asymptotic(k_) and asymptotic(min(k_ + 1, len(dds) - 1))]
            res.count("order_pairs_in_asymptotic_range", len(asy))
            if asy and not (lo - 0.2 <= asy[-1][0] <= hi + 0.4):
                res.violate("mm_order", "%s: errors vs the reference %s (amplitude %.3e, floor %.2e) give orders %s; the finest pair in the asymptotic range "
                            "(differences between runs %s) must lie in [%.2f, %.2f]" % (tag, ["%.3e" % e for e in errs], amp, floor, ["%.2f" % o for o in orders],
                                                                                       ["%.2e" % d_ for d_ in dds], lo - 0.2, hi + 0.4), method=method)
        for k_ in range(len(dds)):
            j_ = min(k_, len(dds) - 2)
            ratio = dds[j_] / dds[j_ + 1] if dds[j_ + 1] > 0 else float("inf")
            if not (pw / 1.5 <= ratio <= pw * 1.5):
                res.count("discretisation_bound_levels_pre_asymptotic")
                continue
            res.count("discretisation_bound_checks")
            res.maxobs("max_mm_error_over_richardson_estimate", errs[k_] / max(3.0 * dds[k_] + floor, 1e-300))
            if errs[k_] > 3.0 * dds[k_] + floor:
                res.violate("mm_accuracy", "%s: at h=%.5f the rotor angles are %.3e away from the reference while the method's own discretisation estimate "
                            "|x_h - x_h/2| is %.3e (bound 3x + measured event floor %.1e): the simulation converges to something else" % (
                                tag, hs[k_], errs[k_], dds[k_], floor), method=method, level=k_)
                break
        # finest run: whatever the asymptotic analysis says, the trajectory must be close to the reference on the scale of the swing
        if method == "trapezoid" and errs[-1] > 0.02 * amp + floor:
            res.violate("mm_accuracy", "%s: finest step h=%.5f is %.3e away from the reference (2 %% of the swing amplitude %.3e + floor %.1e)" % (
                tag, hs[-1], errs[-1], amp, floor), method=method, level=len(hs) - 1)
        # bus voltage magnitudes (algebraic variables) against the reference network solution at the same instants
        res.maxobs("max_mm_bus_voltage_error", verr[-1])
        if method == "trapezoid" and verr[-1] > 5.0 * (errs[-1] + floor) + 1e-6:
            res.violate("mm_bus_voltage", "%s: bus voltage magnitudes differ from the reference network solution by %.3e while the rotor angles agree to %.3e" % (
                tag, verr[-1], errs[-1]), method=method)
    res.sig = "mm|%s|%d" % (method, spec["index"])
    res.nontrivial = amp > 1e-3
    res.sample = dict(kind="mm", buses=len(p["net"]["bus"]), machines=[{k: (round(v, 4) if isinstance(v, float) else v) for k, v in mm.items()} for mm in p["mach"]],
                      events=p["ev"], method=method, amplitude=amp, errors=errs, orders=orders, event_floor=floor, bus_voltage_errors=verr)


def _breaks(p):
    ts = [0.0]
    for e in p["ev"]:
        if e["kind"] == "fault":
            ts += [e["tf"], e["tc"]]
        else:
            ts.append(e["t"])
            if e["tclose"] is not None:
                ts.append(e["tclose"])
    return sorted(ts)
