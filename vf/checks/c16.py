"""
C16 - Results do not depend on solver back-end, acceleration options or repetition.

(a) matrix level: the real ``Solver`` wrapper is fed hostile sequences of kvxopt matrices; a
    post-condition ``A x = b`` (backward error) is asserted after every call documented to
    factorise; singular input must give NaN / raise, and the next regular solve must be right.
(b) routine level: PF / TDS / EIG of stock and generated cases under every combination of
    {klu, umfpack, spsolve} x linsolve x ipadd (x Newton variant for PF) with tightened
    tolerances; pairwise agreement to solver precision.
(c) repetition: the same case in two fresh processes gives a bit-identical SHA-256 of ts.t/x/y.
"""
import hashlib
import json
import os
import subprocess
import sys

import numpy as np

from vf.util import Result, rng_for

PROPERTY = "C16"
LEVEL = "exploration"
TIMEOUT = 900
RULE = ("matrix sequences: random sparse systems (n 1-400; same pattern new values, new pattern, permuted, scaled 1e-12..1e12, "
        "singular-then-regular) through Solver('klu'|'umfpack'|'spsolve').solve/linsolve with the flags the routines set; "
        "routine level: stock cases x all back-end combinations; repetition in fresh processes. Non-trivial: >= 10 solver calls "
        "checked or >= 3 configurations compared; distinct = (sequence seed | case).")
ASSUMPTIONS = ["backward-error bound 1e-8*(|A||x|+|b|): UMFPACK/SuperLU reach 1e-16, KLU (threshold pivoting, no refinement) up to 1e-10 on non-dominant random matrices; a stale or wrong factorisation gives O(1)",
               "SciPy back-end: solve() is only required to use the matrix of the last refresh (documented caching)"]
REQUIRED_OBS = {"solver_calls_checked": 300, "pattern_changes_without_refresh": 5, "singular_inputs": 10, "routine_configs_compared": 12, "fresh_process_pairs": 1,
                "spectra_compared_between_backends": 6}

LIBS = ["klu", "umfpack", "spsolve"]
# backward-error bounds: UMFPACK / SuperLU pivot by magnitude (observed <= 3e-16); KLU keeps the diagonal pivot when it is
# above 0.001 x column maximum, so its element growth - and backward error - on non-dominant matrices is larger by design
# (observed up to 1e-7 on hostile random matrices).  A stale or wrong factorisation gives O(0.1..1).
BE_BOUND = {"klu": 1e-5, "umfpack": 1e-9, "spsolve": 1e-9}
ROUTINE_CASES = ["kundur/kundur_full.xlsx", "ieee14/ieee14_fault.xlsx", "5bus/pjm5bus.xlsx", "wecc/wecc_gencls.xlsx",
                 "ieee39/ieee39_full.xlsx", "smib/SMIB.xlsx", "kundur/kundur_aw.xlsx", "ieee14/ieee14_esst3a.xlsx"]


def cases(tier, seed):
    out = []
    n = 45 if tier == "quick" else 600
    for i in range(n):
        out.append(dict(id="mat%04d" % i, kind="mat", index=i, lib=LIBS[i % 3]))
    rc = ROUTINE_CASES[:3] if tier == "quick" else ROUTINE_CASES
    for c in rc:
        out.append(dict(id="routine:" + c, kind="routine", case=c, full=(tier == "thorough")))
    for c in (ROUTINE_CASES[:1] if tier == "quick" else ROUTINE_CASES[:4]):
        out.append(dict(id="fresh:" + c, kind="fresh", case=c))
    out.append(dict(id="numba:smib", kind="numba", case="smib/SMIB.xlsx"))
    if tier == "thorough":
        out.append(dict(id="numba:kundur", kind="numba", case="kundur/kundur_full.xlsx", timeout=1800))
    return out


def worker_init():
    from vf import au
    au.quiet()


# ---------------------------------------------------------------------------------------------

def rand_sparse(rng, n, density, scale=1.0, dominant=True):
    """Random structurally non-singular sparse matrix as (I, J, V)."""
    nnz = max(n, int(density * n * n))
    I = list(range(n))
    J = list(rng.permutation(n)) if not dominant else list(range(n))
    V = list((rng.uniform(1.0, 3.0, n)) * rng.choice([-1, 1], n))
    extra = nnz - n
    ii = rng.integers(0, n, extra)
    jj = rng.integers(0, n, extra)
    vv = rng.normal(0, 0.3, extra)
    # no tiny entries: KLU prefers a diagonal entry above 0.001 x column maximum as pivot, so tiny diagonal
    # fill-ins would turn the test into one of KLU's own pivot growth rather than of the wrapper
    vv = np.where(np.abs(vv) < 0.05, np.sign(vv + 1e-300) * 0.05, vv)
    seen = set(zip(I, J))
    for a, b, v in zip(ii, jj, vv):
        if (int(a), int(b)) in seen:
            continue
        seen.add((int(a), int(b)))
        I.append(int(a))
        J.append(int(b))
        V.append(float(v))
    V = np.array(V) * scale
    return np.array(I), np.array(J), V


def to_spmatrix(I, J, V, n):
    from kvxopt import spmatrix
    return spmatrix(V.tolist(), I.tolist(), J.tolist(), (n, n), 'd')


def backward_error(I, J, V, n, x, b):
    Ax = np.zeros(n)
    np.add.at(Ax, I, V * x[J])
    rown = np.zeros(n)
    np.add.at(rown, I, np.abs(V))
    normA = rown.max() if n else 0.0
    den = normA * np.max(np.abs(x)) + np.max(np.abs(b))
    return float(np.max(np.abs(Ax - b)) / den) if den > 0 else 0.0


def run_mat(spec, res):
    from kvxopt import matrix
    from andes.linsolvers.solverbase import Solver
    rng = rng_for(spec.get("seed", 0), PROPERTY, 1, spec["index"])
    lib = spec["lib"]
    S = Solver(sparselib=lib)
    n = int(rng.choice([1, 2, 3, 5, 8, 20, 60, 150, 400]))
    density = float(rng.choice([0.02, 0.1, 0.3])) if n > 10 else 0.6
    I, J, V = rand_sparse(rng, n, density, dominant=bool(rng.integers(0, 2)))
    cached = None      # (I, J, V) the SciPy back-end is entitled to be using
    seq = []
    for step in range(int(rng.integers(8, 25))):
        op = int(rng.integers(0, 8))
        singular = False
        if op == 0:        # same pattern, new values
            V = V * rng.uniform(0.5, 1.5, len(V))
            pattern_changed = False
        elif op == 1:      # new pattern (and possibly new size is not allowed for one instance in ANDES: keep n)
            I, J, V = rand_sparse(rng, n, density, dominant=bool(rng.integers(0, 2)))
            pattern_changed = True
        elif op == 4 and n >= 3:
            # new pattern with the same number of entries in every column (rows permuted): the column pointers of the
            # compressed storage stay as they are, only the row indices move - and with them KLU's block structure
            perm = rng.permutation(n)
            I = perm[I]
            pattern_changed = True
            res.count("pattern_changes_same_column_counts")
        elif op == 2:      # scaling
            V = V * float(rng.choice([1e-12, 1e-6, 1e6, 1e12]))
            pattern_changed = False
        elif op == 3 and n >= 2:      # singular: two identical rows / a zero row, same storage pattern where possible
            singular = True
            pattern_changed = False
        else:
            pattern_changed = False
        b = rng.normal(0, 1, n) * float(rng.choice([1.0, 1e-8, 1e5]))
        Vuse = V.copy()
        if singular:
            r = int(rng.integers(0, n))
            Vuse[I == r] = 0.0          # explicit zeros keep the pattern: numerically singular
        A = to_spmatrix(I, J, Vuse, n)
        entry = ["solve", "linsolve"][int(rng.integers(0, 2))]
        # flags exactly as the routines set them before a refresh
        # SuiteSparse back-ends are documented to factorise on every call, so for them a pattern change
        # WITHOUT the refresh flag is part of the workload; the SciPy back-end only promises the matrix
        # of the last refresh, and the routines always request one after changing the matrix.
        if lib == "spsolve":
            refresh = pattern_changed or bool(rng.integers(0, 2)) or cached is None or singular
        else:
            refresh = bool(rng.integers(0, 2)) or step == 0
            if pattern_changed and not refresh:
                res.count("pattern_changes_without_refresh")
        if entry == "solve" and refresh:
            S.worker.factorize = True
            S.worker.new_A = True
        bm = matrix(b.copy())
        seq.append((entry, "singular" if singular else ("refresh" if refresh else "cached"), n))
        try:
            x = np.array(getattr(S, entry)(A, bm)).ravel()
            raised = None
        except Exception as e:   # an error is an acceptable report for singular input
            x = None
            raised = e
        documented = lib in ("klu", "umfpack") or entry == "linsolve" or refresh
        if singular:
            res.count("singular_inputs")
            if x is not None and np.all(np.isfinite(x)):
                be = backward_error(I, J, Vuse, n, x, b)
                if be > 1e-8:
                    res.violate("singular_returns_finite_garbage" if entry == "solve" else "linsolve_singular_returns_rhs",
                                "%s.%s on a singular matrix (n=%d) returned a finite vector with backward error %.2e "
                                "(equal to the right-hand side: %s)" % (lib, entry, n, be, bool(np.allclose(x, b))), lib=lib, entry=entry)
            # after a singular input the instance must recover: force a refresh next time
            S.worker.factorize = True
            S.worker.new_A = True
            cached = None
            continue
        if raised is not None:
            res.violate("regular_solve_raised", "%s.%s raised %r on a regular matrix (n=%d, step %d of %s)" % (
                lib, entry, raised, n, step, seq[-4:]), lib=lib)
            continue
        if entry == "solve" and lib == "spsolve":
            if refresh:
                cached = (I.copy(), J.copy(), Vuse.copy())
            ref = cached
        else:
            ref = (I, J, Vuse)
            if entry == "solve":
                cached = (I.copy(), J.copy(), Vuse.copy())
        if not documented and ref is None:
            continue
        be = backward_error(ref[0], ref[1], ref[2], n, x, b)
        res.count("solver_calls_checked")
        res.maxobs("max_backward_error", be)
        res.maxobs("max_backward_error_" + lib, be)
        if not np.all(np.isfinite(x)) or be > BE_BOUND[lib]:
            res.violate("solution_wrong", "%s.%s (n=%d, %s): backward error %.3e above the bound of the back-end (history %s)" % (
                lib, entry, n, seq[-1][1], be, seq[-5:]), lib=lib, entry=entry, be=be)
    res.sig = "mat:%s:%d:%d" % (lib, spec.get("seed", 0), spec["index"])
    res.nontrivial = res.obs.get("solver_calls_checked", 0) >= 5
    res.sample = dict(lib=lib, n=n, calls=seq[:10], max_backward_error=res.obs.get("max_backward_error"))


# ---------------------------------------------------------------------------------------------

def run_one(case, rcsec, tf=1.5, eig=True):
    """PF + TDS (+EIG) of one case under a configuration; returns dict of numpy arrays."""
    from vf import au
    with au.Scratch("c16") as sd:
        rc = au.write_rc(os.path.join(sd, "x.rc"), rcsec)
        ss = au.load(case, config_path=rc)
        out = dict(pf=bool(ss.PFlow.run()))
        if not out["pf"]:
            return out
        out["V"] = np.concatenate([ss.Bus.v.v, ss.Bus.a.v])
        ss.TDS.config.tf = tf
        out["tds"] = bool(ss.TDS.run())
        if eig and ss.dae.n == 0:        # states are addressed at TDS.init: a static case has none
            eig = False
        out["t"] = np.array(ss.dae.ts.t)
        out["x"] = np.array(ss.dae.ts.x)
        out["y"] = np.array(ss.dae.ts.y)
        out["worker"] = type(ss.TDS.solver.worker).__name__
    if eig:
        with au.Scratch("c16") as sd:
            rc = au.write_rc(os.path.join(sd, "x.rc"), rcsec)
            ss = au.load(case, config_path=rc)
            ss.PFlow.run()
            ok = ss.EIG.run()
            out["eig"] = bool(ok)
            out["mu"] = np.sort_complex(np.array(ss.EIG.mu).ravel())
    return out


def sections(lib, linsolve, ipadd, method="NR", tds_tol="1e-8", tstep=None):
    base = dict(sparselib=lib, linsolve=linsolve)
    out = {"System": dict(ipadd=ipadd), "PFlow": dict(base, method=method, tol="1e-10", report=0),
           "TDS": dict(base, tol=tds_tol, no_tqdm=1, criteria=0), "EIG": dict(base)}
    if tstep is not None:
        out["TDS"]["tstep"] = repr(tstep)
    return out


def run_routine(spec, res):
    combos = [(lib, ls, ip, m) for lib in LIBS for ls in (0, 1) for ip in (0, 1) for m in ("NR", "dishonest")]
    if not spec.get("full"):
        rng = rng_for(spec.get("seed", 0), PROPERTY, 2, abs(hash(spec["case"])) % 10000)
        keep = [0] + sorted(int(i) for i in rng.choice(np.arange(1, len(combos)), size=5, replace=False))
        # make sure every library appears
        combos = [combos[i] for i in keep] + [("umfpack", 0, 1, "NR"), ("spsolve", 0, 1, "NR")]
    ref = None
    disc_est = [None]
    tds_tol = "1e-8"
    # a stiff disturbance may not converge at the tightened tolerance: fall back once for the whole case
    try:
        probe = run_one(spec["case"], sections(*combos[0][:3], combos[0][3], tds_tol=tds_tol), eig=False)
        if probe["pf"] and not probe.get("tds"):
            tds_tol = "1e-6"
            res.count("cases_run_at_tds_tol_1e-6")
    except Exception:
        pass
    for lib, ls, ip, m in combos:
        tag = "%s/ls%d/ip%d/%s" % (lib, ls, ip, m)
        try:
            o = run_one(spec["case"], sections(lib, ls, ip, m, tds_tol=tds_tol))
        except Exception as e:
            res.violate("config_raises", "%s under %s raised %r" % (spec["case"], tag, e), tag=tag)
            continue
        want = {"klu": "KLUSolver", "umfpack": "UMFPACKSolver", "spsolve": "SpSolve"}[lib]
        if o.get("worker") and o["worker"] != want:
            res.inconc("configuration %s did not select %s (got %s)" % (tag, want, o["worker"]))
            return
        res.count("routine_configs_compared")
        if ref is None:
            ref = (tag, o)
            if not o["pf"] or not o.get("tds"):
                res.inconc("reference configuration failed")
                return
            continue
        t0, r = ref
        if o["pf"] != r["pf"] or o.get("tds") != r.get("tds"):
            res.violate("status_differs", "%s: %s pf/tds=%s/%s vs %s %s/%s" % (spec["case"], tag, o["pf"], o.get("tds"), t0, r["pf"], r.get("tds")))
            continue
        dv = float(np.max(np.abs(o["V"] - r["V"])))
        res.maxobs("max_pf_difference", dv)
        if dv > 1e-8:
            res.violate("pf_differs", "%s: power flow under %s differs from %s by %.3e (limit 1e-8)" % (spec["case"], tag, t0, dv), tag=tag)
        # Step-size control branches on Newton iteration counts, so after a hard disturbance round-off level
        # differences may legitimately change the time axis.  Compare the common prefix to solver precision
        # and, if the axes part ways, the state at the (exact) end time at discretisation level.
        npre = 0
        nmin = min(len(o["t"]), len(r["t"]))
        same = np.abs(o["t"][:nmin] - r["t"][:nmin]) <= 1e-12
        npre = nmin if same.all() else int(np.argmin(same))
        res.count("rows_compared_between_backends", npre)
        if npre:
            dx = float(max(np.max(np.abs(o["x"][:npre] - r["x"][:npre])) if o["x"].size else 0.0,
                           np.max(np.abs(o["y"][:npre] - r["y"][:npre]))))
            res.maxobs("max_trajectory_difference", dx)
            if dx > 1e-6:
                res.violate("trajectory_differs", "%s: trajectories under %s differ from %s by %.3e on the common time axis "
                            "(limit 1e-6)" % (spec["case"], tag, t0, dx), tag=tag)
        if npre < max(len(o["t"]), len(r["t"])):
            res.count("time_axes_diverged_after_rejections")
            if o["t"][-1] == r["t"][-1] and o["x"].size:
                span = float(np.max(np.abs(r["x"] - r["x"][0])) + 1e-9)
                de = float(np.max(np.abs(o["x"][-1] - r["x"][-1]))) / span
                res.maxobs("max_endstate_rel_difference_diverged_axes", de)
                # different step sequences differ by their discretisation errors: the yardstick is the reference configuration's
                # own discretisation estimate (same back-end, half the step), not a fixed percentage
                if disc_est[0] is None:
                    try:
                        half = run_one(spec["case"], sections(*combos[0][:3], combos[0][3], tds_tol=tds_tol, tstep=(1 / 30) / 2), eig=False)
                        disc_est[0] = float(np.max(np.abs(half["x"][-1] - r["x"][-1]))) / span if half.get("tds") and half["t"][-1] == r["t"][-1] else float("nan")
                    except Exception:
                        disc_est[0] = float("nan")
                    res.maxobs("max_discretisation_estimate_rel", disc_est[0] if np.isfinite(disc_est[0]) else 0.0)
                lim = 1e-3 + 3.0 * disc_est[0] if np.isfinite(disc_est[0]) else 1e-2
                if de > lim:
                    res.violate("trajectory_differs", "%s: end state under %s differs from %s by %.2e of the excursion (the reference's own "
                                "discretisation estimate is %.2e; limit %.2e)" % (spec["case"], tag, t0, de, disc_est[0], lim), tag=tag)
        if "mu" in o and "mu" in r:
            if len(o["mu"]) != len(r["mu"]):
                res.violate("spectrum_differs", "%s: %d vs %d eigenvalues (%s vs %s)" % (spec["case"], len(o["mu"]), len(r["mu"]), tag, t0))
            else:
                from scipy.optimize import linear_sum_assignment
                C = np.abs(o["mu"][:, None] - r["mu"][None, :])
                ri, ci = linear_sum_assignment(C)
                rel = float(np.max(C[ri, ci] / (1.0 + np.abs(r["mu"][ci]))))
                res.maxobs("max_spectrum_rel_difference", rel)
                res.count("spectra_compared_between_backends")
                if rel > 1e-6:
                    res.violate("spectrum_differs", "%s: eigenvalues under %s differ from %s by %.3e relative" % (spec["case"], tag, t0, rel), tag=tag)
    res.sig = "routine:" + spec["case"]
    res.nontrivial = res.obs.get("routine_configs_compared", 0) >= 3
    res.sample = dict(case=spec["case"], configs=len(combos), max_pf=res.obs.get("max_pf_difference"),
                      max_traj=res.obs.get("max_trajectory_difference"), max_mu=res.obs.get("max_spectrum_rel_difference"))


CHILD = r"""
import sys, hashlib, json
import numpy as np
from vf import au
from vf.checks import c16
au.quiet()
case = sys.argv[1]
sec = json.loads(sys.argv[2])
o = c16.run_one(case, sec, tf=1.0, eig=False)
h = hashlib.sha256()
for k in ('V', 't', 'x', 'y'):
    h.update(np.ascontiguousarray(o[k]).tobytes())
print('HASH', h.hexdigest(), len(o['t']))
"""


def child_hash(case, sec, extra_env=None):
    env = dict(os.environ)
    if extra_env:
        env.update(extra_env)
    r = subprocess.run([sys.executable, "-c", CHILD, case, json.dumps(sec)], capture_output=True, text=True, timeout=1500, env=env)
    for l in r.stdout.splitlines():
        if l.startswith("HASH"):
            return l.split()[1], int(l.split()[2])
    raise RuntimeError("child failed: " + r.stderr[-500:])


def run_fresh(spec, res):
    sec = {"TDS": dict(no_tqdm=1), "PFlow": dict(report=0)}
    hs = [child_hash(spec["case"], sec) for _ in range(2)]
    # a third one with a different hash seed: results must not depend on dict/set iteration order
    hs.append(child_hash(spec["case"], sec, {"PYTHONHASHSEED": "12345"}))
    res.count("fresh_process_pairs")
    res.sig = "fresh:" + spec["case"]
    res.nontrivial = hs[0][1] > 10
    res.sample = dict(case=spec["case"], hashes=[h[0][:16] for h in hs], rows=hs[0][1])
    if len(set(h[0] for h in hs)) != 1:
        res.violate("not_reproducible", "%s: SHA-256 of (V, ts.t, ts.x, ts.y) differs between fresh processes: %s" % (
            spec["case"], [h[0][:12] for h in hs]))


def run_numba(spec, res):
    a = run_one(spec["case"], {"System": dict(numba=0), "TDS": dict(no_tqdm=1), "PFlow": dict(report=0)}, tf=1.0, eig=False)
    b = run_one(spec["case"], {"System": dict(numba=1), "TDS": dict(no_tqdm=1), "PFlow": dict(report=0)}, tf=1.0, eig=False)
    res.count("numba_pairs")
    res.sig = "numba:" + spec["case"]
    res.nontrivial = True
    if a["t"].shape != b["t"].shape:
        res.violate("numba_differs", "%s: time axis differs with numba=1" % spec["case"])
        return
    dx = float(max(np.max(np.abs(a["x"] - b["x"])), np.max(np.abs(a["y"] - b["y"]))))
    res.maxobs("max_numba_difference", dx)
    res.sample = dict(case=spec["case"], max_difference=dx, rows=len(a["t"]))
    if dx > 1e-9:
        res.violate("numba_differs", "%s: trajectories with numba=1 differ by %.3e" % (spec["case"], dx))


def run_case(spec):
    res = Result(spec)
    {"mat": run_mat, "routine": run_routine, "fresh": run_fresh, "numba": run_numba}[spec["kind"]](spec, res)
    return res


def finding_key(w, spec):
    return w.get("mech")
