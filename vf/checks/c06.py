"""
C06 - Scheduled events fire exactly once at their exact time; the time grid is exact.

Monitor: vf.monitor.events.EventLog (wrapped timer callbacks + wrapped Model/Group.set) during
live simulations with generated schedules; offline checker over the recorded log and the stored
time axis (exactly-once, exact time, exact target, prescribed new value, persistence, no step
crossing an event, strictly increasing stamps, run ends at tf).
"""
import os

import numpy as np

from vf.util import Result, rng_for

PROPERTY = "C06"
LEVEL = "exploration"
TIMEOUT = 900
RULE = ("generated schedules of 0-12 Toggle (lines, loads, generators) / Fault (tf, tc) / Alter (+ - * / =) events on "
        "kundur, ieee14, pjm5bus, SMIB, wecc_gencls; times from {0, tf, coincident, within 1e-4, off-grid, >10 s, >tf, "
        "negative}; some disabled; tstep in {1/30, 0.01, 0.05, 0.1}, fixed/variable step, run split into 1-4 resumed "
        "segments. Non-trivial: >= 1 enabled in-range event fired and was checked; distinct = (case, schedule, config).")
ASSUMPTIONS = ["an event is 'scheduled within the simulated interval' when t0 <= t_e <= tf (both ends included)",
               "non-commuting coincident events on one target (e.g. two Alters of the same field at one instant) are not generated"]
REQUIRED_OBS = {"events_expected": 30, "events_fired_ok": 30, "runs_completed": 10, "disabled_or_out_of_range_events": 5}

BASES = ["kundur/kundur_full.xlsx", "ieee14/ieee14_fault.xlsx", "5bus/pjm5bus.xlsx", "smib/SMIB.xlsx", "wecc/wecc_gencls.xlsx",
         "ieee14/ieee14_linetrip.xlsx", "kundur/kundur_aw.xlsx"]


def cases(tier, seed):
    n = 60 if tier == "quick" else 700
    return [dict(id="sched%04d" % i, index=i, long=(i % 15 == 7)) for i in range(n)]


def worker_init():
    from vf import au
    au.quiet()


def draw_time(rng, tf, grid_h):
    c = int(rng.integers(0, 10))
    if c == 0:
        return 0.0
    if c == 1:
        return float(tf)
    if c == 2:
        return float(-rng.uniform(0.1, 1.0))
    if c == 3:
        return float(tf + rng.uniform(1e-4, 1.0))
    if c == 4:
        return float(np.round(rng.uniform(0.05, tf), 1))            # often on the step grid
    if c == 5:
        return float(rng.uniform(0.01, tf))                          # full-precision off-grid
    if c == 6:
        return float(int(rng.integers(1, max(2, int(tf / grid_h)))) * grid_h)   # exactly k*tstep
    return float(np.round(rng.uniform(0.02, tf * 0.95), 4))


def gen_schedule(rng, ss, tf, tstep):
    ev = []
    n = int(rng.integers(0, 13))
    used_alter = set()
    lines = list(ss.Line.idx.v)
    pqs = list(ss.PQ.idx.v)
    buses = list(ss.Bus.idx.v)
    k = 0
    while len(ev) < n:
        k += 1
        kind = ["toggle_line", "toggle_line", "toggle_pq", "alter", "alter", "fault", "toggle_gen"][int(rng.integers(0, 7))]
        t = draw_time(rng, tf, tstep)
        if ev and rng.random() < 0.15:
            t = ev[int(rng.integers(0, len(ev)))]["t"]                       # coincident
        elif ev and rng.random() < 0.1:
            t = ev[int(rng.integers(0, len(ev)))]["t"] + float(rng.choice([5e-5, 1e-4, -5e-5, 2e-4]))   # very close
        u = 0 if rng.random() < 0.15 else 1
        if kind == "toggle_line" and len(lines) > 3:
            ev.append(dict(type="Toggle", model="Line", dev=lines[int(rng.integers(0, len(lines)))], t=t, u=u))
        elif kind == "toggle_pq" and pqs:
            ev.append(dict(type="Toggle", model="PQ", dev=pqs[int(rng.integers(0, len(pqs)))], t=t, u=u))
        elif kind == "toggle_gen" and ss.GENROU.n > 2 and rng.random() < 0.3:
            ev.append(dict(type="Toggle", model="GENROU", dev=ss.GENROU.idx.v[int(rng.integers(0, ss.GENROU.n))], t=t, u=u))
        elif kind == "alter" and pqs:
            dev = pqs[int(rng.integers(0, len(pqs)))]
            src = ["Ppf", "Qpf"][int(rng.integers(0, 2))]
            if (dev, src, t) in used_alter:
                continue
            used_alter.add((dev, src, t))
            m = ["+", "-", "*", "/", "="][int(rng.integers(0, 5))]
            amt = float(rng.uniform(0.9, 1.1)) if m in "*/" else float(rng.uniform(0.0, 0.05)) if m in "+-" else float(rng.uniform(0.05, 0.3))
            ev.append(dict(type="Alter", model="PQ", dev=dev, src=src, attr="v", method=m, amount=amt, t=t, u=u))
        elif kind == "fault" and rng.random() < 0.5:
            tc = t + float(rng.choice([0.05, 0.1, 1e-4, 0.0333]))
            ev.append(dict(type="Fault", bus=buses[int(rng.integers(0, len(buses)))], tf=t, tc=tc, xf=0.05, rf=0.0, u=u, t=t))
        if k > 200:
            break
    return ev


def add_schedule(ss, ev):
    for j, e in enumerate(ev):
        e["id"] = "EV%d" % j
        if e["type"] == "Toggle":
            ss.add("Toggle", dict(idx=e["id"], model=e["model"], dev=e["dev"], t=e["t"], u=e["u"]))
        elif e["type"] == "Alter":
            ss.add("Alter", dict(idx=e["id"], model=e["model"], dev=e["dev"], src=e["src"], attr=e["attr"], method=e["method"],
                                 amount=e["amount"], t=e["t"], u=e["u"]))
        elif e["type"] == "Fault":
            ss.add("Fault", dict(idx=e["id"], bus=e["bus"], tf=e["tf"], tc=e["tc"], xf=e["xf"], rf=e["rf"], u=e["u"]))


def read_schedule(ss):
    """The full schedule as ANDES holds it (generated + the case's own events)."""
    out = []
    T = ss.Toggle
    for i in range(T.n):
        out.append(dict(type="Toggle", id=T.idx.v[i], model=T.model.v[i], dev=T.dev.v[i], t=float(T.t.v[i]), u=int(T.u.v[i])))
    A = ss.Alter
    for i in range(A.n):
        out.append(dict(type="Alter", id=A.idx.v[i], model=A.model.v[i], dev=A.dev.v[i], src=A.src.v[i], attr=A.attr.v[i],
                        method=A.method.v[i], amount=float(A.amount.v[i]), t=float(A.t.v[i]), u=int(A.u.v[i]), rand=int(A.rand.v[i])))
    F = ss.Fault
    for i in range(F.n):
        out.append(dict(type="Fault", id=F.idx.v[i], bus=F.bus.v[i], tf=float(F.tf.v[i]), tc=float(F.tc.v[i]), u=int(F.u.v[i]),
                        t=float(F.tf.v[i])))
    return out


def check_log(res, ss, log, sched, t_reached, completed, tf, t_axis, u0):
    """Offline checker.  ``t_reached``: last time a step was completed (events later than that are undecided)."""
    def in_range(t):
        return 0.0 <= t <= tf

    def decided(t):
        return t <= t_reached if completed else t < t_reached - 1e-3

    # ---- expected firings ------------------------------------------------------------------
    exp = []          # (kind, key, t, event)
    for e in sched:
        if e["type"] == "Fault":
            for nm, t in (("tf", e["tf"]), ("tc", e["tc"])):
                exp.append(("Fault." + nm, e["id"], t, e))
        elif e["type"] == "TimeSeries":
            continue        # no timer parameter: decided on its writes below
        else:
            exp.append((e["type"] + ".t", e["id"], e["t"], e))
    fired = {}
    for f in log.firings:
        for idx in f["idx"]:
            fired.setdefault((f["model"] + "." + f["timer"], idx), []).append(f["t"])
    for kind, eid, t, e in exp:
        got = fired.get((kind, eid), [])
        should = e["u"] == 1 and in_range(t)
        if not decided(t) and should:
            res.count("events_undecided_run_stopped_early")
            continue
        if should:
            res.count("events_expected")
            if len(got) == 0:
                mech = "event_at_t0" if t == 0.0 else "event_missed"
                res.violate(mech, "%s %s scheduled at t=%r (enabled, within [0, %r]) never fired" % (kind, eid, t, tf), event=e)
            elif len(got) > 1:
                res.violate("event_repeated", "%s %s scheduled at t=%r was dispatched %d times (at %s)" % (kind, eid, t, len(got), got[:4]),
                            event=e)
            elif got[0] != t:
                res.violate("event_wrong_time", "%s %s scheduled at t=%r dispatched at dae.t=%r" % (kind, eid, t, got[0]), event=e)
            else:
                res.count("events_fired_ok")
        else:
            res.count("disabled_or_out_of_range_events")
            # the callback may see is_time=True for a disabled device; what matters is the effect (below)
    # ---- effects: every set() performed inside a timer callback must be explained by the schedule ------
    expected_sets = []
    for e in sched:
        if e["u"] != 1:
            continue
        if e["type"] == "Toggle" and in_range(e["t"]):
            expected_sets.append(("u", e["model"], e["dev"], e["t"], e))
        elif e["type"] in ("Alter", "TimeSeries") and in_range(e["t"]):
            expected_sets.append((e["src"], e["model"], e["dev"], e["t"], e))
    cb_sets = [s for s in log.sets if s["cb"] is not None]
    unmatched = list(cb_sets)
    for src, model, dev, t, e in expected_sets:
        m = [s for s in unmatched if s["src"] == src and s["idx"] == dev and s["t"] == t and owner_matches(ss, s["owner"], model)]
        if not m:
            if not decided(t):
                continue     # the run stopped (close to) before this event: nothing can be demanded
            if t == 0.0 and not any(f["t"] == 0.0 for f in log.firings):
                continue     # already reported above as event_at_t0
            res.violate("event_no_effect", "%s %s at t=%r: no write to %s.%s of %r was observed at that instant" % (
                e["type"], e["id"], t, model, src, dev), event=e)
            continue
        s = m[0]
        unmatched.remove(s)
        old = np.ravel(s["old"])[0]
        new = np.ravel(s["new"])[0]
        if e["type"] == "Toggle":
            want = 1 - old
        elif e["type"] == "TimeSeries":
            want = e["value"]
            res.count("timeseries_updates_checked")
        else:
            a = e["amount"]
            want = {"+": old + a, "-": old - a, "*": old * a, "/": old / a, "=": a}[e["method"]]
        res.count("effects_checked")
        if not (new == want or abs(new - want) <= 1e-13 * max(1.0, abs(want))):
            res.violate("event_wrong_value", "%s %s at t=%r: %s.%s of %r went %r -> %r, prescribed %r" % (
                e["type"], e["id"], t, model, src, dev, old, new, want), event=e)
    assign = {(src, str(dev), t): e["value"] for src, model, dev, t, e in expected_sets if e["type"] == "TimeSeries"}
    for s in list(unmatched):
        # a time-series update is an assignment: writing the prescribed value again at the same instant is the same
        # effect (rows at t0 are applied by TimeSeries.init - where the load's own initialisation may overwrite them -
        # and again by the dispatch of the events scheduled at the starting time)
        key = (s["src"], str(s["idx"]), s["t"])
        # (a spreadsheet keeps 15 significant digits of the prescribed number)
        if key in assign and abs(np.ravel(s["new"])[0] - assign[key]) <= 1e-13 * max(1.0, abs(assign[key])):
            unmatched.remove(s)
            res.count("repeated_assignments_same_instant")
    for s in unmatched:
        res.violate("unscheduled_write", "write %s.%s[%r] %r -> %r at t=%r inside %s is not explained by any enabled in-range event" % (
            s["owner"], s["src"], s["idx"], s["old"], s["new"], s["t"], s["cb"]), set=s)
    # Fault flags
    for e in sched:
        if e["type"] != "Fault":
            continue
        flips = [f for f in log.fault_flags if f["idx"] == e["id"]]
        want = []
        if e["u"] == 1:
            # order of application follows time; tf then tc
            for nm, t, nv in sorted([("tf", e["tf"], 1.0), ("tc", e["tc"], 0.0)], key=lambda z: z[1]):
                if in_range(t) and decided(t):
                    want.append((t, nv))
        got = [(f["t"], f["new"]) for f in flips]
        # a flip to the value the flag already has is not a flip; compare the effective sequence
        eff = []
        cur = 0.0
        for t, nv in want:
            if nv != cur:
                eff.append((t, nv))
                cur = nv
        if got != eff and not any(not decided(t) for t in (e["tf"], e["tc"])):
            res.violate("fault_flag_sequence", "Fault %s (tf=%r, tc=%r, u=%d): flag flips %s, expected %s" % (
                e["id"], e["tf"], e["tc"], e["u"], got, eff), event=e)
        else:
            res.count("fault_sequences_checked")
    # ---- persistence / fold: final status of every toggled device ------------------------------
    t0_fires = any(f["t"] == 0.0 for f in log.firings) or not any(e["u"] == 1 and e["t"] == 0.0 for e in sched)
    if completed:
        flips = {}
        for e in sched:
            if e["type"] == "Toggle" and e["u"] == 1 and in_range(e["t"]) and (e["t"] != 0.0 or t0_fires):
                flips[(e["model"], e["dev"])] = flips.get((e["model"], e["dev"]), 0) + 1
        for (model, dev), nflip in flips.items():
            try:
                now = float(np.ravel(ss.__dict__[model].get(src="u", idx=dev, attr="v"))[0])
            except Exception:
                continue
            want = u0[(model, dev)] if nflip % 2 == 0 else 1 - u0[(model, dev)]
            res.count("final_states_checked")
            if now != want:
                res.violate("final_state", "%s %r: final u=%r, the schedule folds to %r (initial %r, %d toggles)" % (
                    model, dev, now, want, u0[(model, dev)], nflip))
    # ---- time axis ---------------------------------------------------------------------------
    t = np.array(t_axis, dtype=float)
    res.count("time_stamps", len(t))
    if len(t) > 1 and not np.all(np.diff(t) > 0):
        i = int(np.where(np.diff(t) <= 0)[0][0])
        res.violate("time_not_increasing", "stored stamps not strictly increasing: t[%d]=%r, t[%d]=%r" % (i, t[i], i + 1, t[i + 1]))
    ts_exp = [("TimeSeries", e["id"], e["t"], e) for e in sched if e["type"] == "TimeSeries"]
    for kind, eid, te, e in exp + ts_exp:
        if e["u"] == 1 and 0.0 < te <= tf and decided(te) and len(t):
            if te not in t:
                lo = t[t < te]
                hi = t[t > te]
                res.violate("event_time_not_on_axis", "%s %s: t=%r is not a stored time stamp (neighbours %r, %r): a step crossed the event" % (
                    kind, eid, te, lo[-1] if len(lo) else None, hi[0] if len(hi) else None), event=e)
            else:
                res.count("event_times_on_axis")
    if completed:
        if len(t) and t[-1] != tf:
            res.violate("end_time", "run completed but last stamp %r != tf %r" % (t[-1], tf))


def owner_matches(ss, owner, model):
    if owner == model:
        return True
    grp = ss.groups.get(model)
    if grp is not None and owner in grp.models:
        return True
    m = ss.models.get(model)
    if m is not None and owner == m.group:
        return True
    return False


def run_case(spec):
    from vf import au
    from vf.monitor.events import EventLog
    res = Result(spec)
    rng = rng_for(spec.get("seed", 0), PROPERTY, spec["index"])
    base = BASES[int(rng.integers(0, len(BASES)))]
    tstep = float(rng.choice([1 / 30, 0.01, 0.05, 0.1]))
    fixt = int(rng.integers(0, 2))
    tf = float(rng.choice([1.0, 1.5, 2.0, 2.5])) if not spec.get("long") else 10.6
    # options added later draw from their own stream so that the schedules of earlier rounds stay what they were
    rng2 = rng_for(spec.get("seed", 0), PROPERTY, 7, spec["index"])
    refresh_event = int(rng2.random() < 0.25)        # documented option: event times re-collected at every step
    ts_shuffled = bool(rng2.random() < 0.5)          # rows of a time-series sheet need not be in chronological order
    nseg = int(rng.integers(1, 5))
    cuts = sorted(set([float(np.round(rng.uniform(0.05, tf), int(rng.integers(1, 5)))) for _ in range(nseg - 1)]))
    segs = [c for c in cuts if 0 < c < tf] + [tf]
    with au.Scratch("c06") as sd:
        rc = au.write_rc(os.path.join(sd, "a.rc"), {"TDS": dict(tstep=repr(tstep), fixt=fixt, tf=repr(segs[0]), no_tqdm=1, criteria=0,
                                                                refresh_event=refresh_event),
                                                    "PFlow": dict(report=0)})
        ss = au.load(base, setup=False, config_path=rc)
        if refresh_event:
            res.count("runs_with_refresh_event")
        ev = gen_schedule(rng, ss, tf, tstep)
        if spec.get("long"):
            for e in ev[: max(1, len(ev) // 2)]:
                if e["type"] != "Fault":
                    e["t"] = float(np.round(rng.uniform(10.0, 10.55), 4))       # times beyond 10 s
        add_schedule(ss, ev)
        ts_rows = None
        # (a load that an Alter also writes would make same-instant writes order-dependent: the property does not
        #  define an order between different event models, so the generator keeps their targets apart)
        alter_devs = set(str(d) for d in ss.Alter.dev.v)
        ts_cands = [d for d in ss.PQ.idx.v if str(d) not in alter_devs]
        if rng.random() < 0.4 and ts_cands:
            # a generated time-series sheet driving two fields of one load
            import pandas as pd
            nrow = int(rng.integers(1, 6))
            # (a spreadsheet keeps 15 significant digits: use times that survive that)
            tt = sorted(set([float(np.round(draw_time(rng, tf, tstep), 6)) for _ in range(nrow)]))
            ts_rows = [dict(t=float(t), c1=float(np.round(rng.uniform(0.1, 1.0), 6)), c2=float(np.round(rng.uniform(0.0, 0.5), 6))) for t in tt]
            xl = os.path.join(sd, "series.xlsx")
            rows_out = list(ts_rows)
            if ts_shuffled and len(rows_out) > 1:
                rows_out = [rows_out[i] for i in rng2.permutation(len(rows_out))]
                res.count("time_series_sheets_not_chronological")
            pd.DataFrame(rows_out).to_excel(xl, sheet_name="S1", index=False)
            ts_dev = ts_cands[int(rng.integers(0, len(ts_cands)))]
            ts_u = 0 if rng.random() < 0.15 else 1
            ss.add("TimeSeries", dict(idx="TS1", mode=1, path=xl, sheet="S1", fields="c1,c2", tkey="t", model="PQ", dev=ts_dev, dests="Ppf,Qpf", u=ts_u))
        ss.setup()
        sched = read_schedule(ss)
        if ts_rows is not None:
            for r in ts_rows:
                for fld, dest in (("c1", "Ppf"), ("c2", "Qpf")):
                    sched.append(dict(type="TimeSeries", id="TS1", model="PQ", dev=ts_dev, src=dest, attr="v", value=r[fld], t=r["t"], u=ts_u))
        if any(e.get("rand") for e in sched):
            res.inconc("case uses random Alter amounts")
            return res
        if not ss.PFlow.run():
            res.inconc("power flow failed")
            return res
        u0 = {}
        for e in sched:
            if e["type"] == "Toggle":
                try:
                    u0[(e["model"], e["dev"])] = float(np.ravel(ss.__dict__[e["model"]].get(src="u", idx=e["dev"], attr="v"))[0])
                except Exception:
                    res.inconc("toggle target not found")
                    return res
        log = EventLog(ss)
        ok = False
        try:
            for k, seg in enumerate(segs):
                ss.TDS.config.tf = seg
                ok = ss.TDS.run()
                if not ok:
                    break
        finally:
            log.close()
        completed = bool(ok) and float(ss.dae.t) == tf
        t_axis = np.array(ss.dae.ts.t, dtype=float)
        t_reached = float(t_axis[-1]) if len(t_axis) else 0.0
        res.count("runs")
        res.count("runs_completed" if completed else "runs_stopped_early")
        res.count("callback_invocations", log.calls)
        res.count("segments", len(segs))
        check_log(res, ss, log, sched, t_reached, completed, tf, t_axis, u0)
        res.sig = "%s|%r|%d|%s|%s" % (base, tstep, fixt, segs, [(e["type"], e.get("dev", e.get("bus")), e["t"], e["u"]) for e in sched])
        if ts_rows is not None:
            res.count("timeseries_schedules")
        res.nontrivial = res.obs.get("events_fired_ok", 0) >= 1
        res.sample = dict(base=base, tstep=tstep, fixt=fixt, refresh_event=refresh_event, segments=segs, completed=completed, t_reached=t_reached,
                          schedule=[dict(type=e["type"], t=e["t"], u=e["u"], target=e.get("dev", e.get("bus"))) for e in sched][:8],
                          fired_ok=res.obs.get("events_fired_ok", 0))
    return res


def finding_key(w, spec):
    return w.get("mech")
