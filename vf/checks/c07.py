"""
C07 - Simulated trajectories agree with an independent reference solution.

(a) single machine - infinite bus: generated systems GENCLS - x'd - transformer - two parallel
    lines - Slack with random inertia, damping, reactances, loading and line open / reclose times.
    Reference: the swing equation  M w' = Pm - Pe(delta, t) - D (w - 1),  delta' = 2 pi f (w - 1),  with
    Pe from an own Kron reduction of the network per switching interval, E', delta0, Pm derived from the
    power-flow voltages, integrated piecewise with solve_ivp(DOP853, rtol 1e-11).  Assertions: the error
    sequence over h in {1/30, 1/60, 1/120, 1/240} has the order of the method, the finest error is below
    1 % of the swing amplitude, the default-step error is within the discretisation bound.
(c) multi-machine classical model (vf/checks/c07_mm.py): generated meshed networks with a GENCLS machine on every generator, bus faults
    and branch trips; reference: own Kron reduction per switching interval + DOP853; event floor measured by a second reference run.
(b) small-signal: for stock dynamic cases a state kick eps*d is applied at a zero-amount Alter event
    and the response is compared with x_eq + expm(A (t - t_k)) eps d, A reduced densely from the run's own
    Jacobians (validated independently under C03).
"""
import os

import numpy as np

from vf.util import Result, rng_for

PROPERTY = "C07"
LEVEL = "exploration"
TIMEOUT = 900
RULE = ("(a) random SMIB systems (M in [2,20], D in [0,5], x'd, xT, xL1, xL2, P in [0.2,1.1], optional line resistance and a shunt load, one "
        "line opened and optionally reclosed at random times), both integration methods; (b) stock cases kundur_full, wecc_gencls, "
        "pjm5bus, ieee14_full, kundur_sexs, ieee39 with random / unit kick directions, both methods; (c) generated 4-10 bus networks (taps, phase "
        "shifters, device bases, shunts, several loads per bus), 2-4 classical machines on their own MVA base, bus fault (rf, xf) and / or branch "
        "trip with optional reclosure, compared with the classical multi-machine reference (rotor angles of all machines, bus voltages). Non-trivial: the swing amplitude "
        "exceeds 1e-3 rad (a) or the response amplitude exceeds 10 eps (b); distinct = generator seed | (case, direction, method).")
ASSUMPTIONS = ["GENCLS is the classical model E' behind x'd with constant mechanical power; PQ loads are constant impedance in TDS (default p2z)",
               "orders are estimated from successive halvings on the finer step pairs: trapezoid in [1.6, 2.4], backward Euler in [0.75, 1.3] (the 1 % accuracy clause is applied to the trapezoidal rule; backward Euler is first order and numerically damped)",
               "multi-machine benchmark: loads are constant admittances fixed at the power-flow voltage, machines are E' behind ra + j x'd on their own base, the electrical torque equals the air-gap power; the h-independent error left by ANDES' 1e-4 s event resolution is measured with a second reference integration that applies the same impulse",
               "small-signal kicks are applied on the step that leaves a scheduled (zero-amount) event, where ANDES itself inserts 1e-4 s steps"]
REQUIRED_OBS = {"smib_runs": 8, "order_estimates": 8, "smallsignal_runs": 4, "mm_runs": 8, "mm_branches_switched_in": 1}

SS_CASES = ["kundur/kundur_full.xlsx", "wecc/wecc_gencls.xlsx", "5bus/pjm5bus.xlsx", "kundur/kundur_sexs.xlsx", "ieee14/ieee14_full.xlsx",
            "ieee39/ieee39_full.xlsx"]


def cases(tier, seed):
    out = []
    n = 8 if tier == "quick" else 120
    for i in range(n):
        out.append(dict(id="smib%03d" % i, kind="smib", index=i, method=["trapezoid", "backeuler"][1 if i % 4 == 3 else 0]))
    cs = SS_CASES[:3] if tier == "quick" else SS_CASES
    k = 0
    for c in cs:
        for method in ("trapezoid", "backeuler"):
            for rep in range(1 if tier == "quick" else 6):
                out.append(dict(id="ss:%s:%s:%d" % (c, method, rep), kind="ss", case=c, method=method, index=k))
                k += 1
    # (c) multi-machine classical-model benchmark on generated networks (vf/checks/c07_mm.py)
    for i in range(6 if tier == "quick" else 90):
        out.append(dict(id="mm%03d" % i, kind="mm", index=i, method=["trapezoid", "backeuler"][1 if i % 6 == 5 else 0]))
    return out


def worker_init():
    from vf import au
    au.quiet()


# ------------------------------------------------------------------------------------------------

def gen_smib(rng):
    p = dict(M=float(rng.uniform(2, 20)), D=float(rng.uniform(0, 5)), xd1=float(rng.uniform(0.15, 0.4)), xT=float(rng.uniform(0.05, 0.2)),
             xL1=float(rng.uniform(0.2, 0.8)), xL2=float(rng.uniform(0.2, 0.8)), P=float(rng.uniform(0.2, 1.1)), v1=float(rng.uniform(0.98, 1.05)),
             vinf=float(rng.uniform(0.97, 1.03)), rL=float(rng.choice([0.0, 0.0, 0.02, 0.05])), pload=float(rng.choice([0.0, 0.0, 0.3])),
             t_open=float(np.round(rng.uniform(0.1, 0.6), 3)), t_close=None, tf=3.0, f=60.0)
    if rng.random() < 0.6:
        p["t_close"] = float(np.round(p["t_open"] + rng.uniform(0.08, 0.4), 3))
    # machine data on the machine's own MVA base (system base 100 MVA): M, D, xd1 below are machine-base numbers
    p["Sn"] = float(rng.choice([100.0, 50.0, 250.0, 400.0]))
    kb = p["Sn"] / 100.0
    if p["M"] * kb < 2.0 or p["P"] > 1.1 * kb:
        # keep the scenario inside the range the accuracy thresholds were derived for: system-base inertia >= 2 s,
        # machine not loaded beyond 110 % of its own rating
        p["Sn"] = 100.0
    return p


def build_smib(p, rc):
    from vf import au
    ss = au.new_system(config_path=rc)
    for i in (1, 2, 3):
        ss.add("Bus", dict(idx=i, name="B%d" % i, Vn=230.0))
    ss.add("Line", dict(idx="T", bus1=1, bus2=2, Vn1=230.0, Vn2=230.0, r=0.0, x=p["xT"], b=0.0, Sn=100.0))
    ss.add("Line", dict(idx="L1", bus1=2, bus2=3, Vn1=230.0, Vn2=230.0, r=p["rL"], x=p["xL1"], b=0.0, Sn=100.0))
    ss.add("Line", dict(idx="L2", bus1=2, bus2=3, Vn1=230.0, Vn2=230.0, r=p["rL"], x=p["xL2"], b=0.0, Sn=100.0))
    ss.add("PV", dict(idx="G1", bus=1, Vn=230.0, Sn=100.0, p0=p["P"], v0=p["v1"]))
    ss.add("Slack", dict(idx="INF", bus=3, Vn=230.0, Sn=100.0, v0=p["vinf"], a0=0.0))
    if p["pload"] > 0:
        ss.add("PQ", dict(idx="LD", bus=2, Vn=230.0, p0=p["pload"], q0=0.1 * p["pload"]))
    # the inertia may be given a provisional value here and its real one through GENCLS.alter after TDS.init (simulate_smib)
    M_built = p["M"] * 1.7 if p.get("alter_M_after_init") else p["M"]
    ss.add("GENCLS", dict(idx="GEN", bus=1, gen="G1", Sn=p.get("Sn", 100.0), Vn=230.0, fn=p["f"], M=M_built, D=p["D"], xd1=p["xd1"], ra=0.0))
    ss.add("Toggle", dict(model="Line", dev="L2", t=p["t_open"]))
    if p["t_close"] is not None:
        ss.add("Toggle", dict(model="Line", dev="L2", t=p["t_close"]))
    ss.setup()
    return ss


def reference_swing(p, V1, V2, V3, tgrid):
    """Own swing-equation reference.  V1, V2, V3: complex power-flow voltages (only their values are taken from ANDES)."""
    from scipy.integrate import solve_ivp
    eps = 1e-8     # ANDES' documented regularisation of line r and x

    def y_line(r, x):
        return 1.0 / complex(r + eps, x + eps)
    yT = y_line(0.0, p["xT"])
    y1 = y_line(p["rL"], p["xL1"])
    y2 = y_line(p["rL"], p["xL2"])
    # textbook change of base: inertia and damping scale with Sn/Sb, reactances with Sb/Sn
    kb = p.get("Sn", 100.0) / 100.0
    xd1, M_sys, D_sys = p["xd1"] / kb, p["M"] * kb, p["D"] * kb
    yd = 1.0 / complex(0.0, xd1)
    # generator current from the power-flow solution
    I1 = yT * (V1 - V2)
    E = V1 + 1j * xd1 * I1
    delta0 = float(np.angle(E))
    Emag = float(abs(E))
    # constant-impedance load at bus 2 from its power-flow power
    yload = 0.0
    if p["pload"] > 0:
        yload = np.conj(complex(p["pload"], 0.1 * p["pload"])) / abs(V2) ** 2

    def pe_fun(line2_on):
        # nodes: 0 = internal EMF, 1 = bus1, 2 = bus2, 3 = infinite bus; eliminate 1 and 2
        Y = np.zeros((4, 4), dtype=complex)

        def add(a, b, y):
            Y[a, a] += y
            Y[b, b] += y
            Y[a, b] -= y
            Y[b, a] -= y
        add(0, 1, yd)
        add(1, 2, yT)
        add(2, 3, y1)
        if line2_on:
            add(2, 3, y2)
        Y[2, 2] += yload
        keep, drop = [0, 3], [1, 2]
        Yr = Y[np.ix_(keep, keep)] - Y[np.ix_(keep, drop)] @ np.linalg.solve(Y[np.ix_(drop, drop)], Y[np.ix_(drop, keep)])

        def pe(delta):
            Ec = Emag * np.exp(1j * delta)
            I = Yr[0, 0] * Ec + Yr[0, 1] * V3
            return float((Ec * np.conj(I)).real)
        return pe
    pe_on, pe_off = pe_fun(True), pe_fun(False)
    Pm = pe_on(delta0)
    w = 2 * np.pi * p["f"]
    breaks = [0.0, p["t_open"]] + ([p["t_close"]] if p["t_close"] is not None else []) + [p["tf"]]
    modes = [pe_on, pe_off] + ([pe_on] if p["t_close"] is not None else [])
    y0 = np.array([delta0, 1.0])
    T, Yv = [0.0], [y0.copy()]
    for k in range(len(breaks) - 1):
        a, b = breaks[k], breaks[k + 1]
        pe = modes[k]
        tg = [t for t in tgrid if a < t <= b + 1e-12]
        sol = solve_ivp(lambda t, y: [w * (y[1] - 1.0), (Pm - pe(y[0]) - D_sys * (y[1] - 1.0)) / M_sys], (a, b), y0, method="DOP853",
                        rtol=1e-11, atol=1e-12, t_eval=sorted(set(tg + [b])))
        for t, col in zip(sol.t, sol.y.T):
            if t > T[-1]:
                T.append(float(t))
                Yv.append(col.copy())
        y0 = sol.y[:, -1]
    return np.array(T), np.array(Yv), dict(E=Emag, delta0=delta0, Pm=Pm)


def simulate_smib(p, h, method, sd, tag):
    from vf import au
    rc = au.write_rc(os.path.join(sd, "s_%s.rc" % tag), {"TDS": dict(tstep=repr(h), tf=repr(p["tf"]), method=method, tol="1e-9", no_tqdm=1, criteria=0, max_iter=30,
                                                                    refresh_event=int(p.get("refresh_event", 0))),
                                                        "PFlow": dict(report=0, tol="1e-12"), "System": dict(freq=p["f"])})
    ss = build_smib(p, rc)
    if not ss.PFlow.run():
        return None
    V = np.array(ss.Bus.v.v) * np.exp(1j * np.array(ss.Bus.a.v))
    if p.get("alter_M_after_init"):
        # "for every choice of inertia": also when it is set through the documented alteration call after the initialisation
        ss.TDS.init()
        ss.GENCLS.alter("M", "GEN", p["M"])
    ok = ss.TDS.run()
    if not ok:
        return None
    t = np.array(ss.dae.ts.t)
    d = np.array(ss.dae.ts.x)[:, int(ss.GENCLS.delta.a[0])]
    w = np.array(ss.dae.ts.x)[:, int(ss.GENCLS.omega.a[0])]
    return dict(t=t, delta=d, omega=w, V=V, ss=ss)


def run_smib(spec, res):
    from vf import au
    rng = rng_for(spec.get("seed", 0), PROPERTY, 1, spec["index"])
    method = spec["method"]
    rng2 = rng_for(spec.get("seed", 0), PROPERTY, 9, spec["index"])      # options added later: own stream
    opt = dict(refresh_event=int(rng2.random() < 0.3), alter_M_after_init=bool(rng2.random() < 0.3))
    for attempt in range(5):
        p = gen_smib(rng)
        p.update(opt)
        # backward Euler damps the swing numerically: its asymptotic range needs much smaller steps
        hs = [1 / 30, 1 / 60, 1 / 120, 1 / 240] if method == "trapezoid" else [1 / 240, 1 / 480, 1 / 960, 1 / 1920]
        with au.Scratch("c07") as sd:
            runs = [simulate_smib(p, h, method, sd, "%d" % k) for k, h in enumerate(hs)]
        if any(r is None for r in runs):
            res.count("smib_rejected_unstable_or_infeasible")
            continue
        V = runs[-1]["V"]
        # compare at the exact common stamps: event times and tf, plus coarse-grid stamps before the first event
        pts = [p["t_open"]] + ([p["t_close"]] if p["t_close"] is not None else []) + [p["tf"]]
        pts += [k / 30 for k in range(1, int(p["t_open"] * 30))]
        T, Y, info = reference_swing(p, V[0], V[1], V[2], sorted(set(pts)))
        amp = float(np.max(np.abs(Y[:, 0] - Y[0, 0])))
        if not np.all(np.isfinite(Y)) or amp > 2.5:
            res.count("smib_rejected_unstable_or_infeasible")       # loss of synchronism: no meaningful pointwise comparison
            continue
        break
    else:
        res.inconc("no stable SMIB sample in 5 draws")
        return
    res.count("smib_runs", len(hs))
    res.count("smib_runs_refresh_event", len(hs) * int(p.get("refresh_event", 0)))
    res.count("smib_runs_inertia_altered_after_init", len(hs) * int(bool(p.get("alter_M_after_init"))))
    # steady state derived independently must coincide with ANDES' own initial point
    r0 = runs[-1]
    if abs(r0["delta"][0] - info["delta0"]) > 1e-6:
        res.violate("smib_initial_angle", "SMIB %s: initial rotor angle %.8f, own derivation from the power-flow voltages %.8f" % (p, r0["delta"][0], info["delta0"]))
    errs = []
    for r in runs:
        e = 0.0
        for tp in sorted(set(pts)):
            ia = np.where(np.abs(r["t"] - tp) < 1e-12)[0]
            ib = np.where(np.abs(T - tp) < 1e-9)[0]
            if len(ia) and len(ib):
                e = max(e, abs(r["delta"][ia[-1]] - Y[ib[0], 0]))
        errs.append(e)
    orders = [float(np.log2(errs[i] / errs[i + 1])) if errs[i + 1] > 0 else float("nan") for i in range(3)]
    lo, hi = (1.6, 2.4) if method == "trapezoid" else (0.75, 1.3)
    res.count("order_estimates", 2)
    res.maxobs("max_finest_error_over_amplitude", errs[-1] / max(amp, 1e-12))
    tag = "SMIB Sn=%g M=%.2f D=%.2f xd'=%.3f xT=%.3f xL=%.3f/%.3f P=%.2f open %.3f close %s (%s)" % (
        p.get("Sn", 100.0), p["M"], p["D"], p["xd1"], p["xT"], p["xL1"], p["xL2"], p["P"], p["t_open"], p["t_close"], method)
    if amp > 1e-3:
        floor = 1e-7        # reference accuracy / ANDES tolerance floor
        # the coarsest pair may still be pre-asymptotic (omega_swing * h ~ 0.5): the order is decided on the finer pairs,
        # the coarsest one only has to show convergence at all
        # ANDES resolves a switching instant with 1e-4 s steps that reuse the pre-event derivative: that leaves an error
        # floor of the order of 1e-4 of the excursion which does not shrink with h; pairs close to it carry no order information
        floor = max(floor, 1e-3 * amp)
        # with error = C h^p + F (F <= floor) the measured order of a pair stays within the band only while the finer
        # error of the pair is above ~3.1 F: log2((4a + F) / (a + F)) >= 1.6  <=>  a >= 2.1 F
        # successive differences between the runs themselves (no reference involved): they tell where the asymptotic range
        # of the method begins for this swing - there the differences shrink by 2^p per halving
        dds = []
        for k_ in range(len(runs) - 1):
            dd = 0.0
            for tp in sorted(set(pts)):
                ia = np.where(np.abs(runs[k_]["t"] - tp) < 1e-12)[0]
                ib = np.where(np.abs(runs[k_ + 1]["t"] - tp) < 1e-12)[0]
                if len(ia) and len(ib):
                    dd = max(dd, abs(runs[k_]["delta"][ia[-1]] - runs[k_ + 1]["delta"][ib[-1]]))
            dds.append(dd)
        pw = 4.0 if method == "trapezoid" else 2.0

        def asymptotic(k_):
            j_ = min(k_, len(dds) - 2)
            ratio = dds[j_] / dds[j_ + 1] if dds[j_ + 1] > 0 else float("inf")
            return pw / 1.5 <= ratio <= pw * 1.5
        pairs = [(o, e2, k_) for k_, (o, e1, e2) in enumerate(zip(orders, errs, errs[1:])) if e2 > 3.2 * floor]
        if not pairs:
            res.count("order_undecided_errors_at_floor")
        # "converges to the reference as the step size is reduced": every pair above the floor shows convergence; where the
        # method is in its asymptotic range (see above) the error against the reference shrinks at the order of the method
        # (coarser pairs of a hard swing - omega_swing * h ~ 0.5, excursions near the stability limit - are pre-asymptotic and
        # may be slower or faster; the maximum over the comparison points may also change its point between levels)
        if pairs and min(o for o, _, _ in pairs) <= 0.0:
            res.violate("smib_order", "%s: errors vs the swing-equation reference %s do not shrink under step refinement (orders %s)" % (
                tag, ["%.3e" % e for e in errs], ["%.2f" % o for o in orders]), method=method)
        else:
            asy = [(o, k_) for o, _, k_ in pairs if asymptotic(k_) and asymptotic(min(k_ + 1, len(dds) - 1))]
            res.count("order_pairs_in_asymptotic_range", len(asy))
            if asy and not (lo - 0.2 <= asy[-1][0] <= hi + 0.4):
                res.violate("smib_order", "%s: errors vs the swing-equation reference %s (swing amplitude %.3e) give orders %s; the finest pair in the "
                            "asymptotic range (differences between runs %s) must lie in [%.2f, %.2f]" % (
                                tag, ["%.3e" % e for e in errs], amp, ["%.2f" % o for o in orders], ["%.2e" % d_ for d_ in dds], lo - 0.2, hi + 0.4), method=method)
        # "within the discretisation error bound at the default settings": the distance to the reference is explained by the
        # method's own discretisation estimate (Richardson: e(h) ~ |x_h - x_h/2| * 2^p / (2^p - 1), i.e. 4/3 resp. 2), with
        # a factor 3 and the event-resolution floor
        pw = 4.0 if method == "trapezoid" else 2.0
        for k_ in range(len(dds)):
            # the estimate is only valid where the differences themselves shrink at the method's rate (asymptotic range)
            j_ = min(k_, len(dds) - 2)
            ratio = dds[j_] / dds[j_ + 1] if dds[j_ + 1] > 0 else float("inf")
            if not (pw / 1.5 <= ratio <= pw * 1.5):
                res.count("discretisation_bound_levels_pre_asymptotic")
                continue
            res.count("discretisation_bound_checks")
            res.maxobs("max_error_over_richardson_estimate", errs[k_] / max(3.0 * dds[k_] + floor, 1e-300))
            if errs[k_] > 3.0 * dds[k_] + floor:
                res.violate("smib_accuracy", "%s: at h=%.5f the distance to the reference is %.3e, the method's own discretisation estimate "
                            "|x_h - x_h/2| is %.3e (bound 3x + floor %.1e): the simulation converges to something else" % (
                                tag, hs[k_], errs[k_], dds[k_], floor), method=method, level=k_)
                break
    res.sig = tag
    res.nontrivial = amp > 1e-3
    res.sample = dict(params={k: (round(v, 4) if isinstance(v, float) else v) for k, v in p.items()}, method=method, amplitude=amp, errors=errs, orders=orders)


# ------------------------------------------------------------------------------------------------

def run_ss(spec, res):
    from scipy.linalg import expm
    from vf import au
    from vf.au import dense
    rng = rng_for(spec.get("seed", 0), PROPERTY, 2, spec["index"])
    method = spec["method"]
    tk, tf, eps = 0.1, 0.6, 1e-5
    hs = [1 / 30, 1 / 60, 1 / 120] if method == "trapezoid" else [1 / 120, 1 / 240, 1 / 480]
    direction = None
    errs = []
    amp = 0.0
    with au.Scratch("c07") as sd:
        for k, h in enumerate(hs):
            rc = au.write_rc(os.path.join(sd, "k%d.rc" % k), {"TDS": dict(tstep=repr(h), tf=repr(tf), method=method, tol="1e-10", no_tqdm=1, criteria=0, max_iter=30),
                                                            "PFlow": dict(report=0, tol="1e-12")})
            ss = au.load(spec["case"], setup=False, config_path=rc)
            # disable the case's own events, add a zero-amount Alter so that ANDES inserts tk -/+ 1e-4
            for mname in ("Toggle", "Fault", "Alter"):
                m = getattr(ss, mname)
                if m.n:
                    m.u.v = [0] * m.n
            ss.add("Alter", dict(t=tk, model="PQ", dev=ss.PQ.idx.v[0], src="Ppf", attr="v", method="+", amount=0.0))
            ss.setup()
            if not ss.PFlow.run():
                res.inconc("power flow failed")
                return
            ss.TDS.init()
            if ss.TDS.test_ok is False:
                res.inconc("initialisation failed")
                return
            if np.any(ss.dae.Tf == 0):
                res.inconc("case has zero time constants")
                return
            n = ss.dae.n
            if direction is None:
                direction = rng.standard_normal(n)
                if rng.random() < 0.5:
                    direction = np.zeros(n)
                    direction[int(rng.integers(0, n))] = 1.0
                # do not kick states pegged by limiters
                for item in ss.antiwindups:
                    for key, _, _ in item.x_set:
                        direction[np.atleast_1d(key).astype(int)] = 0.0
                direction = direction / max(np.linalg.norm(direction), 1e-12)
            xeq = ss.dae.x.copy()
            # linearisation from the run's own Jacobians at the equilibrium
            ss.TDS.itm_step()      # evaluates f, g and the Jacobians at the initial point (what EIG does as well)
            fx, fy, gx, gy = dense(ss.dae.fx), dense(ss.dae.fy), dense(ss.dae.gx), dense(ss.dae.gy)
            A = (fx - fy @ np.linalg.solve(gy, gx)) / ss.dae.Tf[:, None]
            state = dict(done=False)

            def pert(t, system, _st=state):
                if not _st["done"] and abs(t - (tk + 1e-4)) < 1e-12:
                    system.dae.x[:] = system.dae.x + eps * direction
                    system.vars_to_models()
                    _st["done"] = True
            ss.TDS.callpert = pert
            ok = ss.TDS.run()
            if not ok or not state["done"]:
                res.inconc("kick run did not complete (kick applied: %s)" % state["done"])
                return
            t = np.array(ss.dae.ts.t)
            X = np.array(ss.dae.ts.x)
            e = 0.0
            a = 0.0
            for tp in (0.3, 0.4, 0.5, tf):
                ia = np.where(np.abs(t - tp) < 1e-9)[0]
                if not len(ia):
                    continue
                ref = expm(A * (tp - tk)) @ (eps * direction)
                got = X[ia[-1]] - xeq
                e = max(e, float(np.max(np.abs(got - ref))))
                a = max(a, float(np.max(np.abs(ref))))
            errs.append(e)
            amp = max(amp, a)
    res.count("smallsignal_runs", len(hs))
    orders = [float(np.log2(errs[i] / errs[i + 1])) if errs[i + 1] > 0 else float("nan") for i in range(len(errs) - 1)]
    lo, hi = (1.6, 2.4) if method == "trapezoid" else (0.75, 1.3)
    floor = max(50 * eps * eps, 1e-12) + 1e-4 * eps     # O(eps^2) nonlinearity and the stale f0 of the 1e-4 step
    tag = "%s %s kick" % (spec["case"], method)
    res.count("order_estimates", len(orders))
    res.maxobs("max_smallsignal_error_over_amplitude", errs[-1] / max(amp, 1e-300))
    usable = [o for o, e in zip(orders, errs) if e > 20 * floor]
    # the pair above the floor is the coarsest one: it has to shrink at least at the method's order (a coarse step may
    # still converge faster than that; see C04)
    if amp > 10 * eps * 0.01 and usable and not (usable[0] >= lo):
        res.violate("smallsignal_order", "%s: errors vs expm(A t) response %s give orders %s; the pair above the floor must reach %.2f (band top %.2f not enforced on a coarse pair)" % (
            tag, ["%.3e" % e for e in errs], ["%.2f" % o for o in orders], lo, hi), method=method)
    if method == "trapezoid" and errs[-1] > 0.02 * amp + floor:
        res.violate("smallsignal_accuracy", "%s: finest-step error %.3e exceeds 2%% of the response amplitude %.3e" % (tag, errs[-1], amp), method=method)
    res.sig = "%s|%s|%d" % (spec["case"], method, spec["index"])
    res.nontrivial = amp > 10 * eps * 0.01
    res.sample = dict(case=spec["case"], method=method, errors=errs, orders=orders, amplitude=amp, eps=eps)


def run_case(spec):
    res = Result(spec)
    if spec["kind"] == "mm":
        from vf.checks import c07_mm
        c07_mm.run_mm(spec, res)
        return res
    {"smib": run_smib, "ss": run_ss}[spec["kind"]](spec, res)
    return res


def finding_key(w, spec):
    return w.get("mech")
