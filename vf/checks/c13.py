"""
C13 - Case files round-trip; one case in different formats is one system.

(1) every stock case and generated cases: dump xlsx / json -> load -> ``as_dict(vin=True)`` equal per
    model and equal power-flow / initialisation results;
(2) importers against independent readers (vf.oracle.rawread): stock RAW / MATPOWER files and
    generated RAW / MATPOWER text are read by ANDES and by the own reader; both descriptions are
    converted to a system-base admittance matrix, bus load and generator tables and compared;
(3) MATPOWER export: system2mpc -> mpc2system gives an equivalent system;
(4) PSS/E raw+dyr against the xlsx version of the same case where one ships.
"""
import os

import numpy as np

from vf.util import Result, rng_for

PROPERTY = "C13"
LEVEL = "exploration"
TIMEOUT = 1200
RULE = ("(1) all stock xlsx/json cases + generated networks (string/numeric idx, offline devices, several loads per bus, device bases); "
        "(2) all stock raw/.m files + generated raw/.m text (3-50 buses, base MVA in {50,100,1000}, per-end branch shunts, magnetising "
        "admittance, phase shifters); (3) stock + generated systems; (4) kundur, ieee14, npcc, wecc. Non-trivial: >= 3 models compared "
        "or >= 5 buses compared; distinct = file | generator seed.")
ASSUMPTIONS = ["RAW: CW/CZ/CM codes per the PSS/E data format; transformers with a winding-2 ratio != 1 are counted and skipped (ANDES' "
               "single-ratio model and the two-ratio circuit differ by definition there)",
               "numeric-looking strings may come back as numbers from xlsx (cells are untyped): indices are compared as text"]
REQUIRED_OBS = {"roundtrip_models_compared": 200, "importer_buses_compared": 300, "mpc_exports_compared": 5}
INCONCLUSIVE_CAP = 0.1

DYR_PAIRS = [("kundur/kundur.raw", "kundur/kundur_full.dyr", "kundur/kundur_full.xlsx"), ("ieee14/ieee14.raw", "ieee14/ieee14.dyr", "ieee14/ieee14_full.xlsx"),
             ("npcc/npcc.raw", "npcc/npcc_full.dyr", "npcc/npcc.xlsx"), ("wecc/wecc.raw", "wecc/wecc_full.dyr", "wecc/wecc_full.xlsx")]


def cases(tier, seed):
    from vf import au
    out = []
    stock = [c for c in au.stock_cases((".xlsx", ".json")) if "dyn_only" not in c]
    if tier == "quick":
        stock = stock[::4]
    for c in stock:
        out.append(dict(id="roundtrip:" + c, kind="roundtrip", case=c))
    n = 10 if tier == "quick" else 120
    for i in range(n):
        out.append(dict(id="rtgen%03d" % i, kind="rtgen", index=i))
    for c in au.stock_cases((".raw", ".m")):
        out.append(dict(id="import:" + c, kind="import", case=c))
    n = 16 if tier == "quick" else 200
    for i in range(n):
        out.append(dict(id="impgen%03d" % i, kind="impgen", index=i, fmt=["raw", "m"][i % 2]))
    mp = ["matpower/case14.m", "ieee14/ieee14_full.xlsx", "kundur/kundur_full.xlsx", "ieee39/ieee39.xlsx", "matpower/case118.m", "5bus/pjm5bus.xlsx"]
    for c in mp:
        out.append(dict(id="mpc:" + c, kind="mpc", case=c))
    n = 6 if tier == "quick" else 60
    for i in range(n):
        out.append(dict(id="mpcgen%03d" % i, kind="mpcgen", index=i))
    for raw, dyr, xl in DYR_PAIRS:
        out.append(dict(id="dyr:" + raw, kind="dyr", raw=raw, dyr=dyr, xlsx=xl))
    return out


def worker_init():
    from vf import au
    au.quiet()


# ------------------------------------------------------------------------------------------------

def same_value(a, b):
    if a is None and b is None:
        return True
    if isinstance(a, (list, tuple, np.ndarray)) or isinstance(b, (list, tuple, np.ndarray)):
        try:
            la, lb = list(a), list(b)
        except TypeError:
            return False
        return len(la) == len(lb) and all(same_value(x, y) for x, y in zip(la, lb))
    fa = isinstance(a, (float, np.floating)) and a != a
    fb = isinstance(b, (float, np.floating)) and b != b
    if (a is None or fa) and (b is None or fb):
        return True
    if isinstance(a, str) or isinstance(b, str):
        sa, sb = str(a), str(b)
        if sa == sb:
            return True
        try:
            return float(sa) == float(sb)
        except ValueError:
            return False
    try:
        return bool(a == b) or (abs(float(a) - float(b)) <= 1e-12 * max(1.0, abs(float(a))))
    except (TypeError, ValueError):
        return str(a) == str(b)


def compare_systems(res, a, b, tag, skip_models=()):
    """Same devices with the same input-base parameter values (model by model, device by device)."""
    for mname, ma in a.models.items():
        mb = b.models[mname]
        if mname in skip_models:
            continue
        if ma.n != mb.n:
            res.violate("roundtrip_device_count", "%s: %s has %d devices, %d after the round trip" % (tag, mname, ma.n, mb.n), model=mname)
            continue
        if ma.n == 0:
            continue
        res.count("roundtrip_models_compared")
        da, db = ma.as_dict(vin=True), mb.as_dict(vin=True)
        for pname, va in da.items():
            if pname == "uid":
                continue
            vb = db.get(pname)
            if vb is None:
                res.violate("roundtrip_param_missing", "%s: %s.%s missing after the round trip" % (tag, mname, pname))
                continue
            for j in range(ma.n):
                if not same_value(va[j], vb[j]):
                    # mechanism predicate: NumParam.add enforces a declared sign / non-zero property (replacing the value by the
                    # default) only for Python floats.  A value that violates the property survives when it arrives as an
                    # integer (spreadsheet cell "5") and is replaced when it arrives as 5.0 (JSON)
                    mech = "roundtrip_value"
                    par = ma.params.get(pname)
                    try:
                        x = float(va[j])
                        prop = getattr(par, "property", {}) or {}
                        viol = (prop.get("non_zero") and x == 0) or (prop.get("non_positive") and x > 0) or (prop.get("non_negative") and x < 0)
                        if viol and same_value(vb[j], par.default):
                            mech = "property_correction_depends_on_numeric_type"
                    except (TypeError, ValueError):
                        pass
                    res.violate(mech, "%s: %s.%s of device %r is %r, after the round trip %r" % (
                        tag, mname, pname, ma.idx.v[j] if hasattr(ma, "idx") else j, va[j], vb[j]), model=mname, param=pname)
                    break


def compare_results(res, a, b, tag, dynamic=True):
    oka, okb = a.PFlow.run(), b.PFlow.run()
    if oka != okb:
        res.violate("roundtrip_pf_status", "%s: power flow converged %s / %s" % (tag, oka, okb))
        return
    if not oka:
        return
    # a collapsed solution (voltage magnitudes near zero: a singular root reached after many iterations) carries no
    # information - its angles are arbitrary and move with the last digit of the data
    if min(float(np.min(np.abs(a.Bus.v.v))), float(np.min(np.abs(b.Bus.v.v)))) < 0.3:
        res.count("roundtrip_pf_collapsed_solution_not_compared")
        return
    ia = {str(k): i for i, k in enumerate(a.Bus.idx.v)}
    order = [ia[str(k)] for k in b.Bus.idx.v]
    d = float(max(np.max(np.abs(a.Bus.v.v[order] - b.Bus.v.v)), np.max(np.abs(a.Bus.a.v[order] - b.Bus.a.v))))
    res.maxobs("max_pf_difference_after_roundtrip", d)
    if d > 1e-9:
        res.violate("roundtrip_pf", "%s: power-flow voltages differ by %.3e after the round trip" % (tag, d))
    if dynamic and a.dae.n + sum(m.n for m in a.exist.tds.values()) > 0:
        for s in (a, b):
            s.TDS.config.no_tqdm = 1
            s.TDS.init()
        if a.TDS.test_ok != b.TDS.test_ok or a.dae.n != b.dae.n:
            res.violate("roundtrip_init", "%s: initialisation %s (n=%d) vs %s (n=%d)" % (tag, a.TDS.test_ok, a.dae.n, b.TDS.test_ok, b.dae.n))
        elif a.dae.n and list(a.dae.x_name) == list(b.dae.x_name):
            dx = float(np.max(np.abs(a.dae.x - b.dae.x)))
            res.maxobs("max_init_difference_after_roundtrip", dx)
            if dx > 1e-8:
                res.violate("roundtrip_init", "%s: initial states differ by %.3e after the round trip" % (tag, dx))


def roundtrip(res, ss_loader, tag, sd):
    import andes
    from vf import au
    for fmt in ("xlsx", "json"):
        a = ss_loader()
        # the system base is configuration, not case data: reload under the same configuration
        rc = au.write_rc(os.path.join(sd, "same.rc"), {"System": dict(mva=repr(float(a.config.mva)), freq=repr(float(a.config.freq)))})
        path = os.path.join(sd, "rt." + fmt)
        if os.path.isfile(path):
            os.remove(path)
        try:
            andes.io.dump(a, fmt, full_path=path, overwrite=True)
            # data files a case refers to by relative path travel with the case file
            ts = getattr(a, "TimeSeries", None)
            if ts is not None and ts.n:
                import shutil
                for rel in ts.path.v:
                    src = os.path.join(a.files.case_path or "", str(rel))
                    if os.path.isfile(src) and not os.path.isabs(str(rel)):
                        os.makedirs(os.path.dirname(os.path.join(sd, str(rel))) or sd, exist_ok=True)
                        shutil.copyfile(src, os.path.join(sd, str(rel)))
            b = au.load(path, config_path=rc)
            b.files.case_path = a.files.case_path       # relative paths inside the case (time series files) keep their meaning
        except Exception as e:
            res.violate("roundtrip_raises", "%s: dump/load through %s raised %r" % (tag, fmt, e), fmt=fmt)
            continue
        res.count("roundtrips")
        compare_systems(res, a, b, "%s via %s" % (tag, fmt))
        if not res.violations:
            try:
                compare_results(res, a, b, "%s via %s" % (tag, fmt))
            except Exception as e:
                res.note("results comparison raised %r" % (e,))


def run_roundtrip(spec, res):
    from vf import au
    with au.Scratch("c13") as sd:
        roundtrip(res, lambda: au.load(spec["case"]), spec["case"], sd)
    res.sig = "roundtrip:" + spec["case"]
    res.nontrivial = res.obs.get("roundtrip_models_compared", 0) >= 3
    res.sample = dict(case=spec["case"], models=res.obs.get("roundtrip_models_compared", 0))


def run_rtgen(spec, res):
    from vf import au
    from vf.gen import network as gn
    from vf.oracle import powerflow as opf
    rng = rng_for(spec.get("seed", 0), PROPERTY, 1, spec["index"])
    # results are compared after the round trip, so the network has to have a regular solution: certified as in C01
    # (own Newton solver reaches the design solution from a flat start; at a collapsed, singular root 15 significant
    # digits of a spreadsheet cell are enough to move the answer)
    net = None
    for attempt in range(8):
        cand = gn.gen_network(rng, hard=True)
        ref = opf.solve(gn.to_oracle(cand), tol=1e-11, max_iter=10)
        vdes = np.array(cand["sol"]["vm"]) * np.exp(1j * np.array(cand["sol"]["va"]))
        if ref["converged"] and np.max(np.abs(ref["V"] - vdes)) < 1e-6:
            net = cand
            break
        res.count("networks_rejected_by_oracle")
    if net is None:
        res.inconc("no well-posed network in 8 draws")
        return
    net = gn.present(net, rng, shuffle=True, idx_style=["num", "str", "strnum"][int(rng.integers(0, 3))], rebase=bool(rng.integers(0, 2)))
    # switched shunts carry list-valued per-unit parameters (gs, bs: admittance blocks) on their own device base
    nsw = int(rng.integers(0, 3))
    sw = []
    for k in range(nsw):
        b = net["bus"][int(rng.integers(0, len(net["bus"])))]
        sw.append(dict(idx="SW%d" % k, bus=b["idx"], Vn=float(b["Vn"]) * float(rng.choice([1.0, 1.0, 1.05])), Sn=float(net["mva"]) * float(rng.choice([1.0, 0.5, 2.0])),
                       g=0.0, b=float(np.round(rng.uniform(0.0, 0.02), 4)), gs="[0.0, 0.0]",
                       bs="[%.4f, %.4f]" % (float(rng.uniform(0.002, 0.01)), float(rng.uniform(0.002, 0.01))), ns="[2, 3]", u=1))

    def build():
        ss = gn.build_system(net, setup=False)
        for row in sw:
            ss.add("ShuntSw", dict(row))
        ss.setup()
        return ss
    res.count("switched_shunts_generated", nsw)
    with au.Scratch("c13") as sd:
        roundtrip(res, build, "generated network %d" % spec["index"], sd)
    res.sig = "rtgen:%d:%d" % (spec.get("seed", 0), spec["index"])
    res.nontrivial = res.obs.get("roundtrip_models_compared", 0) >= 3
    res.sample = dict(buses=len(net["bus"]), mva=net["mva"])


# ------------------------------------------------------------------------------------------------

def tables(d):
    """Admittance matrix and per-bus injection tables of an oracle description (system base)."""
    from vf.oracle import powerflow as opf
    Y = opf.ybus(d)
    nb = d["nb"]
    pl = np.zeros(nb, dtype=complex)
    for k in range(d["pq"]["n"]):
        if d["pq"]["u"][k]:
            pl[d["pq"]["bus"][k]] += d["pq"]["p0"][k] + 1j * d["pq"]["q0"][k]
    pg = np.zeros(nb)
    vset = {}
    for nm in ("pv", "slack"):
        for k in range(d[nm]["n"]):
            if d[nm]["u"][k]:
                pg[d[nm]["bus"][k]] += d[nm]["p0"][k]
                vset[int(d[nm]["bus"][k])] = float(d[nm]["v0"][k])
    slack = sorted(int(b) for b, u in zip(d["slack"]["bus"], d["slack"]["u"]) if u)
    return Y, pl, pg, vset, slack


def compare_import(res, ss, own_net, tag, vtol=1e-9):
    """ANDES' parsed system vs the independent reading (both reduced to the buses of the file)."""
    from vf.gen import network as gn
    from vf.oracle import powerflow as opf
    from vf.oracle.rawread import kron_reduce
    d_a, unsupported = opf.extract(ss)
    d_o = gn.to_oracle(own_net)
    file_buses = [b["idx"] for b in own_net["bus"] if not b.get("star")]
    pos_a = {str(b): i for i, b in enumerate(d_a["bus_idx"])}
    pos_o = {str(b["idx"]): i for i, b in enumerate(own_net["bus"])}
    missing = [b for b in file_buses if str(b) not in pos_a]
    if missing:
        res.violate("import_bus_missing", "%s: buses %s of the file are not in the parsed system" % (tag, missing[:5]))
        return
    keep_a = [pos_a[str(b)] for b in file_buses]
    drop_a = [i for i in range(d_a["nb"]) if i not in set(keep_a)]
    keep_o = [pos_o[str(b)] for b in file_buses]
    drop_o = [i for i in range(d_o["nb"]) if i not in set(keep_o)]
    Ya, pla, pga, vseta, sla = tables(d_a)
    Yo, plo, pgo, vseto, slo = tables(d_o)
    # transformers with a winding-2 ratio: counted, and their rows excluded from the admittance comparison
    skip_buses = set()
    for ln in own_net["line"]:
        if ln.get("windv2", 1.0) != 1.0:
            res.count("transformers_with_winding2_ratio_skipped")
            skip_buses.add(str(ln["bus1"]))
            skip_buses.add(str(ln["bus2"]))
    try:
        Ya_r = kron_reduce(Ya, keep_a, drop_a)
        Yo_r = kron_reduce(Yo, keep_o, drop_o)
    except np.linalg.LinAlgError:
        res.inconc("star-bus elimination singular")
        return
    nb = len(file_buses)
    res.count("importer_buses_compared", nb)
    mask = np.array([str(b) not in skip_buses for b in file_buses])
    dY = np.abs(Ya_r - Yo_r)
    dY[~mask, :] = 0
    dY[:, ~mask] = 0
    scale = 1 + np.abs(Yo_r)
    if np.max(dY / scale) > 1e-6:
        i, j = np.unravel_index(int(np.argmax(dY / scale)), dY.shape)
        res.violate("import_admittance", "%s: admittance between buses %r and %r: parsed system %s, independent reading of the file %s" % (
            tag, file_buses[i], file_buses[j], np.round(Ya_r[i, j], 6), np.round(Yo_r[i, j], 6)), buses=[str(file_buses[i]), str(file_buses[j])])
    la, lo = pla[keep_a], plo[keep_o]
    if np.max(np.abs(la - lo)) > 1e-6:
        i = int(np.argmax(np.abs(la - lo)))
        res.violate("import_load", "%s: load at bus %r: parsed %s, file %s" % (tag, file_buses[i], np.round(la[i], 6), np.round(lo[i], 6)))
    ga, go = pga[keep_a], pgo[keep_o]
    if np.max(np.abs(ga - go)) > 1e-6:
        i = int(np.argmax(np.abs(ga - go)))
        res.violate("import_generation", "%s: generation at bus %r: parsed %r, file %r" % (tag, file_buses[i], float(ga[i]), float(go[i])))
    va = {str(d_a["bus_idx"][k]): v for k, v in vseta.items()}
    vo = {str(own_net["bus"][k]["idx"]): v for k, v in vseto.items()}
    if set(va) != set(vo) or any(abs(va[k] - vo[k]) > vtol for k in va):
        res.violate("import_setpoints", "%s: voltage-controlled buses / set-points differ: %s vs %s" % (tag, sorted(va.items())[:4], sorted(vo.items())[:4]))
    if sorted(str(d_a["bus_idx"][k]) for k in sla) != sorted(str(own_net["bus"][k]["idx"]) for k in slo):
        res.violate("import_slack", "%s: slack buses differ" % tag)
    if float(ss.config.mva) != float(own_net["mva"]):
        res.violate("import_base", "%s: system base %r, file base %r" % (tag, float(ss.config.mva), own_net["mva"]))


def run_import(spec, res):
    from vf import au
    from vf.oracle import rawread
    ss = au.load(spec["case"])
    path = au.case(spec["case"])
    own = rawread.read_raw(path) if path.endswith(".raw") else rawread.read_mpc(path)
    compare_import(res, ss, own, spec["case"])
    res.sig = "import:" + spec["case"]
    res.nontrivial = res.obs.get("importer_buses_compared", 0) >= 5
    res.sample = dict(case=spec["case"], buses=res.obs.get("importer_buses_compared", 0), skipped_t2=res.obs.get("transformers_with_winding2_ratio_skipped", 0))


def run_impgen(spec, res):
    from vf import au
    from vf.gen import formats as fm
    from vf.gen import network as gn
    from vf.oracle import rawread
    rng = rng_for(spec.get("seed", 0), PROPERTY, 2, spec["index"])
    fmt = spec["fmt"]
    net = gn.gen_network(rng, nbus=int(rng.integers(3, 50)), hard=True, asym=(fmt == "raw" and bool(rng.integers(0, 2))))
    net = gn.present(net, rng, shuffle=bool(rng.integers(0, 2)), idx_style="num", rebase=bool(rng.integers(0, 2)))
    if fmt == "raw":
        for ln in net["line"]:          # what a RAW record cannot carry is removed from the network itself
            if ln["trans"]:
                ln["b"] = ln["g"] = ln["b2"] = ln["g2"] = 0.0
            else:
                ln["g"] = 0.0
    if not fm.can_carry(net, fmt):
        res.inconc("generated network cannot be expressed in %s" % fmt)
        return
    text = fm.raw_text(net) if fmt == "raw" else fm.mpc_text(net)
    with au.Scratch("c13") as sd:
        path = os.path.join(sd, "g." + fmt)
        with open(path, "w") as f:
            f.write(text)
        try:
            ss = au.load(path)
        except Exception as e:
            res.violate("import_raises", "generated %s text: load raised %r" % (fmt, e), fmt=fmt)
            return
        # (i) against the independent reader of the same text, (ii) against the network the text was written from
        own = rawread.read_raw(text) if fmt == "raw" else rawread.read_mpc(text)
        compare_import(res, ss, own, "generated %s #%d vs own reader" % (fmt, spec["index"]))
        merged = dict(net)
        # (the text carries set-points with 6 decimals)
        compare_import(res, ss, merged, "generated %s #%d vs source network" % (fmt, spec["index"]), vtol=1e-5)
    res.sig = "impgen:%s:%d:%d" % (fmt, spec.get("seed", 0), spec["index"])
    res.nontrivial = res.obs.get("importer_buses_compared", 0) >= 5
    res.sample = dict(fmt=fmt, buses=len(net["bus"]), mva=net["mva"], asym=any(abs(l["b1"]) + abs(l["g1"]) > 0 for l in net["line"]))


# ------------------------------------------------------------------------------------------------

def mpc_roundtrip(res, ss, tag):
    from vf import au
    from andes.io.matpower import mpc2system, system2mpc
    from vf.oracle import powerflow as opf
    try:
        mpc = system2mpc(ss)
        b = au.new_system()
        mpc2system(mpc, b)
        b.setup()
    except Exception as e:
        types = sorted(set(type(k).__name__ for k in ss.Bus.idx.v))
        res.violate("mpc_export_string_idx" if "str" in types else "mpc_export_raises", "%s: system2mpc -> mpc2system raised %r (bus idx types %s)" % (tag, e, types),
                    idx_types=types)
        return
    res.count("mpc_exports_compared")
    da, _ = opf.extract(ss)
    db, _ = opf.extract(b)
    Ya, pla, pga, vsa, sla = tables(da)
    Yb, plb, pgb, vsb, slb = tables(db)
    if Ya.shape != Yb.shape:
        res.violate("mpc_export_buses", "%s: %d buses exported as %d" % (tag, Ya.shape[0], Yb.shape[0]))
        return
    expressible = not any(abs(x) > 0 for k in ("g", "g1", "b1", "g2", "b2") for x in da["line"][k])
    if expressible and np.max(np.abs(Ya - Yb) / (1 + np.abs(Ya))) > 1e-9:
        i, j = np.unravel_index(int(np.argmax(np.abs(Ya - Yb))), Ya.shape)
        res.violate("mpc_export_admittance", "%s: admittance (%r, %r) %s -> %s after export/import" % (tag, da["bus_idx"][i], da["bus_idx"][j],
                                                                                                   np.round(Ya[i, j], 6), np.round(Yb[i, j], 6)))
    if np.max(np.abs(pla - plb)) > 1e-9:
        i = int(np.argmax(np.abs(pla - plb)))
        nload = int(np.sum((da["pq"]["bus"] == i)))
        noff = int(np.sum((da["pq"]["bus"] == i) & (da["pq"]["u"] == 0)))
        mech = "mpc_export_several_loads_per_bus" if nload > 1 and noff == 0 else ("mpc_export_offline_load" if noff else "mpc_export_load")
        res.violate(mech, "%s: load at bus %r is %s, after MATPOWER export/import %s (%d load devices on the bus, %d offline)" % (
            tag, da["bus_idx"][i], np.round(pla[i], 6), np.round(plb[i], 6), nload, noff), nload=nload, noff=noff)
    if np.max(np.abs(pga - pgb)) > 1e-9:
        i = int(np.argmax(np.abs(pga - pgb)))
        res.violate("mpc_export_generation", "%s: generation at bus %r: %r -> %r" % (tag, da["bus_idx"][i], float(pga[i]), float(pgb[i])))


def run_mpc(spec, res):
    from vf import au
    ss = au.load(spec["case"])
    mpc_roundtrip(res, ss, spec["case"])
    res.sig = "mpc:" + spec["case"]
    res.nontrivial = True
    res.sample = dict(case=spec["case"])


def run_mpcgen(spec, res):
    from vf.gen import network as gn
    rng = rng_for(spec.get("seed", 0), PROPERTY, 3, spec["index"])
    net = gn.gen_network(rng, hard=True, asym=False)
    net = gn.present(net, rng, shuffle=True, idx_style=["num", "num", "str"][int(rng.integers(0, 3))])
    # the transformer flag of a branch is descriptive only (the equations use tap and phi of every branch):
    # a tapped / phase-shifting branch entered without the flag is still the same branch
    for ln in net["line"]:
        if ln.get("trans") and rng.random() < 0.5:
            ln["trans"] = 0
            res.count("mpc_tapped_branches_without_trans_flag")
    ss = gn.build_system(net)
    mpc_roundtrip(res, ss, "generated network %d (idx %s)" % (spec["index"], type(net["bus"][0]["idx"]).__name__))
    res.sig = "mpcgen:%d:%d" % (spec.get("seed", 0), spec["index"])
    res.nontrivial = True
    res.sample = dict(buses=len(net["bus"]), loads=len(net["pq"]))


def run_dyr(spec, res):
    """raw + dyr against the shipped xlsx of the same case: same dynamic devices with the same parameters."""
    from vf import au
    a = au.load(spec["raw"], addfile=au.case(spec["dyr"]))
    b = au.load(spec["xlsx"])
    for mname, ma in a.models.items():
        mb = b.models[mname]
        if not ma.flags.tds or ma.flags.pflow or mname in ("Toggle", "Fault", "Alter", "Output", "TimeSeries", "BusFreq", "COI"):
            continue
        if ma.n == 0 and mb.n == 0:
            continue
        res.count("dyr_models_compared")
        if ma.n != mb.n:
            res.count("dyr_device_count_differs")
            res.note("%s: %s has %d devices from dyr, %d in the xlsx" % (spec["raw"], mname, ma.n, mb.n))
            continue
        da, db = ma.as_dict(vin=True), mb.as_dict(vin=True)
        ndiff = 0
        for pname, va in da.items():
            if pname in ("uid", "idx", "name") or pname not in db:
                continue
            p = ma.params[pname]
            from andes.core.param import NumParam
            if not isinstance(p, NumParam) or getattr(p, "vtype", float) is not float:
                continue
            try:
                xa, xb = np.array(va, dtype=float), np.array(db[pname], dtype=float)
            except (TypeError, ValueError):
                continue
            if xa.shape == xb.shape and not np.allclose(np.sort(xa), np.sort(xb), rtol=1e-6, atol=1e-9, equal_nan=True):
                ndiff += 1
        res.count("dyr_params_differing", ndiff)
    res.sig = "dyr:" + spec["raw"]
    res.nontrivial = res.obs.get("dyr_models_compared", 0) >= 2
    res.sample = dict(raw=spec["raw"], models=res.obs.get("dyr_models_compared", 0), params_differing=res.obs.get("dyr_params_differing", 0))


def run_case(spec):
    res = Result(spec)
    {"roundtrip": run_roundtrip, "rtgen": run_rtgen, "import": run_import, "impgen": run_impgen, "mpc": run_mpc, "mpcgen": run_mpcgen,
     "dyr": run_dyr}[spec["kind"]](spec, res)
    return res


def finding_key(w, spec):
    return w.get("mech")
