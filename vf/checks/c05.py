"""
C05 - Dynamic initialisation is an equilibrium consistent with the power flow.

Monitor: the real ``TDS.init()`` followed by an undisturbed run on stock cases and on composed
systems (random stacks of dynamic models attached to the static generators of base networks);
oracle: an independent evaluation of every declared equation at the initialised point (the C02
ast evaluator, assembled with own adders), equality of bus voltages with the power-flow solution,
and a drift bound; negative cases (inconsistent data) must report failure.
"""
import os

import numpy as np

from vf.util import Result, rng_for

PROPERTY = "C05"
LEVEL = "exploration"
TIMEOUT = 900
RULE = ("(a) every stock dynamic case with its own events disabled; (b) composed systems on kundur / ieee14 / ieee39 / wscc9 / generated "
        "networks: every static generator gets GENCLS or GENROU (+ exciter, governor, stabiliser harvested with their parameter rows from "
        "the stock cases), some generators are shared by two machines with split factors summing to one, some devices offline (loads, "
        "PVD1/ESD1, current-source and voltage-source converter models with u = 0 on in-service static devices), "
        "measurement devices and ZIP/FLoad loads added; (c) the same made inconsistent (split factors not summing to one, perturbed "
        "power-flow solution, NaN parameter). Non-trivial: >= 4 dynamic devices initialised; distinct = case | composition seed.")
ASSUMPTIONS = ["in scope for the 'succeeds' clause: power flow converged, IEEEG1 fractions as its documentation requires, every island has exactly one slack, no in-service machine on an out-of-service static generator, no limiter flag active at initialisation for an online device, no "
               "time-driven inputs (PLBVFU1, TimeSeries); everything else is reported as out of scope, not as held",
               "rows to which models with hand-written numeric equations contribute are excluded from the independent residual",
               "drift bound of the undisturbed run: 50 * TDS.tol"]
REQUIRED_OBS = {"inits_checked": 30, "residual_rows_checked": 3000, "undisturbed_runs": 10, "negative_cases": 6, "composed_systems": 8}
INCONCLUSIVE_CAP = 0.2


def cases(tier, seed):
    from vf import au
    out = []
    stock = [c for c in au.stock_cases((".xlsx", ".json")) if "dyn_only" not in c]
    stock += ["kundur/kundur.raw", "ieee14/ieee14.raw", "npcc/npcc.raw", "wecc/wecc.raw", "nordic44/N44_BC.raw"]
    if tier == "quick":
        stock = stock[::3]
    for c in stock:
        out.append(dict(id="stock:" + c, kind="stock", case=c))
    n = 16 if tier == "quick" else 200
    for i in range(n):
        out.append(dict(id="composed%03d" % i, kind="composed", index=i))
    n = 8 if tier == "quick" else 60
    for i in range(n):
        out.append(dict(id="negative%03d" % i, kind="negative", index=i))
    return out


def worker_init():
    from vf import au
    au.quiet()


# ------------------------------------------------------------------------------------------------

def independent_residual(res, ss, models):
    """Expected dae.f / dae.g at the present point from the declared strings; returns (f, g, usable_f_mask, usable_g_mask, slack_f, slack_g)."""
    from vf.checks import c02
    dae = ss.dae
    ef, eg = np.zeros(dae.n), np.zeros(dae.m)
    sf, sg = np.zeros(dae.n), np.zeros(dae.m)
    okf, okg = np.ones(dae.n, dtype=bool), np.ones(dae.m, dtype=bool)
    setters = []
    for mname, mdl in models.items():
        if mdl.n == 0 or not mdl.in_use:
            continue
        numeric = bool(mdl.flags.f_num or mdl.flags.g_num) or any(getattr(b.flags, k, False) for b in mdl.blocks.values() for k in ("f_num", "g_num"))
        o = None if numeric else c02.oracle_e(res, ss, mdl, models)
        rewritten = set()
        for d in mdl.discrete.values():
            if d.has_check_eq:
                st = getattr(d, "state", None) or getattr(d, "u", None)
                if st is not None:
                    rewritten.add(st.name)
        for name, var in list(mdl.cache.states_and_ext.items()) + list(mdl.cache.algebs_and_ext.items()):
            addr = np.atleast_1d(var.a).astype(int)
            if len(addr) == 0:
                continue
            tgt, ok, sl = (ef, okf, sf) if var.e_code == "f" else (eg, okg, sg)
            if o is None:
                if var.e_str is not None or numeric:
                    ok[addr] = False
                continue
            if var.e_str is None:
                continue
            want = o[name]
            if len(want) != len(addr):
                ok[addr] = False
                continue
            if name in rewritten:
                ok[addr] = False       # derivative reset / clipped by a limiter after the generated code ran
                continue
            s = np.nan_to_num(np.asarray(o["__slack__"].get(name, 0.0), dtype=float), nan=0.0, posinf=0.0)
            np.add.at(sl, addr, np.broadcast_to(s, (len(addr),)))
            if getattr(var, "e_setter", False):
                setters.append((tgt, addr, want))
            else:
                np.add.at(tgt, addr, want)
    for tgt, addr, want in setters:
        tgt[addr] = want
    if ss.Bus.n_islanded_buses:
        eg[ss.Bus.islanded_a] = 0
        eg[ss.Bus.islanded_v] = 0
    return ef, eg, okf, okg, sf, sg


def limiter_active(ss):
    """Names of limiters whose flags are active for an online device at the initial point."""
    out = []
    for mname, m in ss.exist.tds.items():
        if m.n == 0:
            continue
        u = np.array(m.u.v) if "u" in m.params else np.ones(m.n)
        for dn, d in m.discrete.items():
            for flag in ("zl", "zu"):
                z = getattr(d, flag, None)
                if z is not None and np.size(z) == m.n and np.any(np.asarray(z)[u != 0] != 0) and type(d).__name__ in ("HardLimiter", "AntiWindup", "Limiter", "AntiWindupRate"):
                    out.append("%s.%s.%s" % (mname, dn, flag))
    return out


def check_init(res, ss, tag, expect=None, run_after=True):
    """PF must have been run.  Returns dict with verdicts."""
    v_pf = np.concatenate([np.array(ss.Bus.v.v), np.array(ss.Bus.a.v)]).copy()
    # data consistency (evaluated on the power-flow system, before static generators are replaced):
    # a machine in service on a static generator that is out of service has no counterpart in the power flow
    inconsistent = False
    for mname, m in ss.SynGen.models.items():
        for k in range(m.n):
            if m.u.v[k] != 0 and float(np.ravel(ss.StaticGen.get("u", m.gen.v[k], "v"))[0]) == 0:
                inconsistent = True
    # output of every static generator in the power-flow solution (the power the dynamic devices on it take over)
    pq_static = {}
    for G in (ss.PV, ss.Slack):
        for k in range(G.n):
            pq_static[str(G.idx.v[k])] = (float(G.p.v[k]), float(G.q.v[k]))
    # IEEEG1 documents: without a second machine K1 + K3 + K5 + K7 = 1 and K2 + K4 + K6 + K8 = 0 (ei/EI_33.xlsx ships a
    # device with K6 = 0.42 and no second machine: its own data are inconsistent)
    G = getattr(ss, "IEEEG1", None)
    if G is not None and G.n:
        for k in range(G.n):
            if G.u.v[k] != 0 and G.syn2.v[k] is None and abs(sum(float(G.params[p_].v[k]) for p_ in ("K2", "K4", "K6", "K8"))) > 1e-12:
                inconsistent = True
                res.count("inconsistent_ieeeg1_lp_fractions_without_second_machine")
    ss.TDS.config.no_tqdm = 1
    try:
        ss.TDS.init()
    except Exception as e:
        res.count("init_raised")
        return dict(raised=e)
    res.count("inits_checked")
    tol = float(ss.TDS.config.tol)
    dae = ss.dae
    models = ss.exist.pflow_tds
    # the state ANDES holds after init: evaluate the real residual freshly (what test_init saw) ...
    f_real, g_real = dae.f.copy(), dae.g.copy()
    # ... and independently from the declared strings
    x0, y0 = dae.x.copy(), dae.y.copy()
    ss.vars_to_models()
    ss.dae.clear_fg()
    ss.s_update_var(models)
    ss.l_update_var(models, niter=0, err=1.0)
    ss.f_update(models)
    ss.l_update_eq(models, niter=0)
    ss.g_update(models)
    ef, eg, okf, okg, sf, sg = independent_residual(res, ss, models)
    ss.fg_to_dae()
    nochk = np.zeros(dae.n, dtype=bool)
    if len(ss.no_check_init):
        nochk[np.array(ss.no_check_init, dtype=int)] = True
    for item in ss.antiwindups:
        for key, _, _ in item.x_set:
            okf[np.atleast_1d(key).astype(int)] = False
    usef = okf & ~nochk
    res.count("residual_rows_checked", int(usef.sum() + okg.sum()))
    with np.errstate(all="ignore"):
        rf = np.where(usef, np.abs(ef) - sf, 0.0)
        rg = np.where(okg, np.abs(eg) - sg, 0.0)
    worst = float(max(np.nanmax(rf) if rf.size else 0.0, np.nanmax(rg) if rg.size else 0.0))
    has_nan = bool(np.any(np.isnan(ef[usef])) or np.any(np.isnan(eg[okg])))
    res.maxobs("max_independent_residual", worst if np.isfinite(worst) else 1e9)
    test_ok = ss.TDS.test_ok
    active = limiter_active(ss)
    allr = np.concatenate([rf, rg])
    nan_real = bool(np.any(np.isnan(f_real[~nochk])) or np.any(np.isnan(g_real)))
    out = dict(test_ok=test_ok, worst=worst, nan=has_nan, nan_real=nan_real, active=active, exit_code=int(ss.exit_code),
               worst_name=(list(dae.x_name) + list(dae.y_name))[int(np.nanargmax(allr))] if allr.size and not np.all(np.isnan(allr)) else None)
    if test_ok is False and ss.exit_code == 0:
        res.violate("init_failure_exit_code_zero", "%s: initialisation failed but System.exit_code is 0" % tag)
    illposed = bool(len(ss.Bus.nosw_island) or len(ss.Bus.msw_island)) or inconsistent
    out["illposed"] = illposed
    if active or illposed:
        # A limiter engaged at the initial point re-writes states/derivatives at the first evaluation after the test
        # (the point ANDES tested is not the point the limited system starts from); islands without / with several
        # slack generators have no well-defined power flow.  Both are outside the property's precondition.
        res.count("out_of_scope_limiter_active_or_illposed_islands")
        return out
    # consistency between ANDES' verdict and the independent one
    if test_ok is True and (worst > 10 * tol or has_nan or nan_real):
        j = int(np.nanargmax(np.concatenate([rf, rg]))) if not has_nan else -1
        nm = (list(dae.x_name) + list(dae.y_name))[j] if j >= 0 else "NaN"
        res.violate("init_success_with_residual", "%s: initialisation reports success but the independent residual of %s is %.3e (tol %.1e)" % (
            tag, nm, worst, tol), var=nm)
    if (worst > 100 * tol or has_nan) and test_ok is not False:
        jj = int(np.nanargmax(np.concatenate([rf, rg])))
        res.violate("init_residual_not_reported", "%s: independent residual %.3e at %s (NaN: %s) but test_ok is %r" % (
            tag, worst, (list(dae.x_name) + list(dae.y_name))[jj], has_nan, test_ok))
    # bus voltages are those of the power flow
    v_now = np.concatenate([np.array(ss.Bus.v.v), np.array(ss.Bus.a.v)])
    if not np.array_equal(v_now, v_pf):
        d = float(np.max(np.abs(v_now - v_pf)))
        res.violate("bus_voltage_changed_by_init", "%s: bus voltages after initialisation differ from the power-flow solution by %.3e" % (tag, d))
    # each machine carries the share of its static generator's output that its split factors prescribe
    if test_ok is True:
        for mname, m in ss.SynGen.models.items():
            for k in range(m.n):
                if m.u.v[k] == 0 or str(m.gen.v[k]) not in pq_static:
                    continue
                ps, qs = pq_static[str(m.gen.v[k])]
                wp, wq = float(m.gammap.v[k]) * ps, float(m.gammaq.v[k]) * qs
                gp, gq = float(m.Pe.v[k]), float(m.Qe.v[k])
                res.count("machine_shares_checked")
                if m.gammap.v[k] != m.gammaq.v[k]:
                    res.count("machine_shares_checked_unequal_factors")
                if abs(gp - wp) > 1e-6 * (1 + abs(wp)) + 10 * tol or abs(gq - wq) > 1e-6 * (1 + abs(wq)) + 10 * tol:
                    res.violate("machine_share_wrong", "%s: %s %r on static generator %r (P=%.6f, Q=%.6f; gammap=%.3f, gammaq=%.3f) starts with "
                                "P=%.6f, Q=%.6f; its share is P=%.6f, Q=%.6f" % (tag, mname, m.idx.v[k], m.gen.v[k], ps, qs, float(m.gammap.v[k]),
                                                                                  float(m.gammaq.v[k]), gp, gq, wp, wq), model=mname)
    # undisturbed run
    if run_after and test_ok is True:
        ss.TDS.config.tf = 2.0
        ok = ss.TDS.run()
        res.count("undisturbed_runs")
        X = np.array(ss.dae.ts.x)
        Y = np.array(ss.dae.ts.y)
        if not ok:
            res.violate("undisturbed_run_failed", "%s: the undisturbed simulation did not complete" % tag)
        elif X.size:
            drift = float(max(np.max(np.abs(X - X[0])) if X.size else 0.0, np.max(np.abs(Y - Y[0]))))
            res.maxobs("max_undisturbed_drift", drift)
            out["drift"] = drift
            if drift > 50 * tol:
                jx = np.unravel_index(int(np.argmax(np.abs(X - X[0]))), X.shape) if X.size else (0, 0)
                res.violate("undisturbed_drift", "%s: without any disturbance the state moves by %.3e (> 50 tol), e.g. %s" % (
                    tag, drift, dae.x_name[jx[1]] if X.size and jx[1] < len(dae.x_name) else "?"), drift=drift)
    return out


def disable_events(ss):
    time_driven = []
    for mname in ("Toggle", "Fault", "Alter"):
        m = getattr(ss, mname)
        if m.n:
            m.u.v = [0] * m.n if isinstance(m.u.v, list) else np.zeros(m.n)
    for mname in ("PLBVFU1", "TimeSeries"):
        m = getattr(ss, mname, None)
        if m is not None and m.n:
            time_driven.append(mname)
    return time_driven


def run_stock(spec, res):
    from vf import au
    kw = {}
    d = au.dyr_for(spec["case"])
    if d:
        kw["addfile"] = au.case(d)
    ss = au.load(spec["case"], setup=False, **kw)
    time_driven = disable_events(ss)
    try:
        ss.setup()
    except Exception as e:
        res.inconc("setup raised %r" % (e,))
        return
    res.sig = "stock:" + spec["case"]
    if not ss.PFlow.run():
        res.count("out_of_scope_pf_failed")
        return
    ndyn = sum(m.n for m in ss.exist.tds.values() if not m.flags.pflow)
    if ndyn == 0:
        res.count("out_of_scope_no_dynamic_models")
        return
    out = check_init(res, ss, spec["case"], run_after=not time_driven)
    if "raised" in out:
        res.violate("init_raises", "%s: TDS.init() raised %r" % (spec["case"], out["raised"]))
        return
    in_scope = not time_driven and not out["active"] and not out.get("illposed")
    if not in_scope:
        res.count("out_of_scope_limiter_or_time_driven")
    elif out["test_ok"] is not True:
        # consistent data inside all limiter ranges must initialise successfully ... unless the data are inconsistent
        res.violate("init_failed_on_consistent_data", "%s: initialisation reports failure (independent residual %.3e), no limiter active, no "
                    "time-driven input" % (spec["case"], out["worst"]), case=spec["case"])
    res.nontrivial = ndyn >= 4
    res.sample = dict(case=spec["case"], dynamic_devices=ndyn, test_ok=out["test_ok"], residual=out["worst"], drift=out.get("drift"),
                      active_limiters=out["active"][:4], in_scope=in_scope)


# ------------------------------------------------------------------------------------------------

LIB_SOURCES = ["kundur/kundur_full.xlsx", "ieee14/ieee14_full.xlsx", "ieee39/ieee39_full.xlsx", "kundur/kundur_ieeest.xlsx", "kundur/kundur_sexs.xlsx",
               "kundur/kundur_ieeeg1.xlsx", "ieee14/ieee14_esst3a.xlsx", "ieee14/ieee14_exac1.xlsx", "ieee14/ieee14_hygov.xlsx", "kundur/kundur_esdc2a.xlsx",
               "ieee14/ieee14_ieeet1.xlsx", "ieee14/ieee14_esst4b.xlsx", "wecc/wecc_full.xlsx", "kundur/kundur_exst1.xlsx", "ieee14/ieee14_esst1a.xlsx",
               "ieee14/ieee14_ac8b.xlsx", "ieee14/ieee14_gast.xlsx", "ieee14/ieee14_ieesgo.xlsx", "kundur/kundur_st2cut.xlsx"]
_lib = None


def library():
    """Valid parameter rows per dynamic model, harvested from the stock cases."""
    global _lib
    if _lib is not None:
        return _lib
    from vf import au
    lib = {}
    for c in LIB_SOURCES:
        try:
            ss = au.load(c, setup=False)
        except Exception:
            continue
        for mname, m in ss.models.items():
            if m.n == 0 or m.group not in ("SynGen", "Exciter", "TurbineGov", "PSS"):
                continue
            d = m.as_dict()
            for i in range(m.n):
                row = {k: (v[i].item() if hasattr(v[i], "item") else v[i]) for k, v in d.items() if k not in ("uid", "idx", "name")}
                lib.setdefault((m.group, mname), []).append(row)
    _lib = lib
    return lib


def compose(rng, base, negative=None):
    """Static network of ``base`` + a random stack of dynamic models on every static generator."""
    from vf import au
    lib = library()
    ss = au.load(base, setup=False)
    # strip existing dynamic devices: rebuild from the static part only
    static = au.new_system()
    for mname in ("Bus", "Line", "PQ", "PV", "Slack", "Shunt", "Area"):
        m = ss.models[mname]
        if m.n == 0:
            continue
        d = m.as_dict()
        for i in range(m.n):
            row = {k: (v[i].item() if hasattr(v[i], "item") else v[i]) for k, v in d.items() if k != "uid"}
            static.add(mname, row)
    ss = static
    desc = []
    gens = [(ss.PV, k) for k in range(ss.PV.n)] + [(ss.Slack, k) for k in range(ss.Slack.n)]
    syn_models = [k for k in lib if k[0] == "SynGen"]
    exc_models = [k for k in lib if k[0] == "Exciter"]
    gov_models = [k for k in lib if k[0] == "TurbineGov"]
    pss_models = [k for k in lib if k[0] == "PSS"]
    count = 0
    for G, k in gens:
        gidx, bus = G.idx.v[k], G.bus.v[k]
        vn = float(G.Vn.v[k])
        nmach = 2 if rng.random() < 0.25 else 1
        gam = [1.0] if nmach == 1 else [float(np.round(rng.uniform(0.3, 0.7), 2))]
        gamq = list(gam)
        if nmach == 2:
            gam.append(1.0 - gam[0])
            # reactive power may be split differently from active power
            if rng.random() < 0.7:
                gamq = [float(np.round(rng.uniform(0.2, 0.8), 2))]
            gamq.append(1.0 - gamq[0])
            if negative == "gamma":
                gam[1] = gam[1] + 0.2
                negative = None
        for mi in range(nmach):
            key = syn_models[int(rng.integers(0, len(syn_models)))]
            row = dict(lib[key][int(rng.integers(0, len(lib[key])))])
            sn = float(max(100.0, abs(float(G.p0.v[k])) * float(ss.config.mva) * 1.5))
            row.update(bus=bus, gen=gidx, Vn=vn, Sn=sn, gammap=gam[mi], gammaq=gamq[mi], u=1)
            row.pop("coi", None)
            row.pop("coi2", None)
            sidx = ss.add(key[1], row)
            count += 1
            stack = [key[1]]
            if rng.random() < 0.8 and exc_models and key[1] != "GENCLS":
                ek = exc_models[int(rng.integers(0, len(exc_models)))]
                er = dict(lib[ek][int(rng.integers(0, len(lib[ek])))])
                er.update(syn=sidx, u=1)
                eidx = ss.add(ek[1], er)
                count += 1
                stack.append(ek[1])
                if rng.random() < 0.3 and pss_models:
                    pk = pss_models[int(rng.integers(0, len(pss_models)))]
                    pr = dict(lib[pk][int(rng.integers(0, len(lib[pk])))])
                    pr.update(avr=eidx, u=1)
                    for drop in ("busr", "busf", "busr2", "busf2"):
                        pr.pop(drop, None)
                    tagp = pk[1]
                    if pk[1] == "IEEEST" and rng.random() < 0.6:
                        # other input signals (power, voltage: non-zero in steady state) and the documented lag mode of the
                        # washout (numerator constant zero); output limits opened so the operating point stays inside them
                        pr["MODE"] = int(rng.integers(1, 7))
                        if rng.random() < (0.6 if pr["MODE"] not in (3, 5) else 0.15):
                            pr["T5"] = 0.0
                        pr.update(LSMAX=99.0, LSMIN=-99.0, VCU=0.0, VCL=0.0)
                        tagp = "IEEEST(MODE=%d,T5=%g)" % (pr["MODE"], pr["T5"])
                    ss.add(pk[1], pr)
                    count += 1
                    stack.append(tagp)
            if rng.random() < 0.7 and gov_models:
                gk = gov_models[int(rng.integers(0, len(gov_models)))]
                gr = dict(lib[gk][int(rng.integers(0, len(lib[gk])))])
                gr.update(syn=sidx, u=1)
                if gr.pop("syn2", None) is not None or gk[1] == "IEEEG1":
                    # a harvested row may name a second machine of its own case: without it the low-pressure fractions
                    # have to be zero and the high-pressure ones sum to one (IEEEG1 documentation)
                    if gk[1] == "IEEEG1":
                        hp = sum(float(gr.get(k_, 0) or 0) for k_ in ("K1", "K3", "K5", "K7"))
                        for k_ in ("K2", "K4", "K6", "K8"):
                            gr[k_] = 0.0
                        if hp > 0:
                            for k_ in ("K1", "K3", "K5", "K7"):
                                gr[k_] = float(gr.get(k_, 0) or 0) / hp
                ss.add(gk[1], gr)
                count += 1
                stack.append(gk[1])
            desc.append("%s@%s" % ("+".join(stack), gidx))
    if rng.random() < 0.5:
        for b in rng.choice(ss.Bus.idx.v, size=min(2, ss.Bus.n), replace=False):
            ss.add("BusFreq", dict(bus=b.item() if hasattr(b, "item") else b))
            count += 1
    return ss, desc, count


def add_offline_devices(rng, ss):
    """Out-of-service dynamic devices attached to in-service static ones: they must be inert - the static generator or load
    stays what the power flow solved.  Default parameters (the device is off); returns the descriptions."""
    desc = []
    kinds = ["ZIP", "FLoad", "PVD1", "ESD1", "ZIP", "FLoad", "PVD1", "REGCA1", "REGCP1", "REGCV1", "REGF1"]
    for _ in range(int(rng.integers(1, 4))):
        k = kinds[int(rng.integers(0, len(kinds)))]
        if k in ("ZIP", "FLoad"):
            if not ss.PQ.n:
                continue
            j = int(rng.integers(0, ss.PQ.n))
            row = dict(u=0, pq=ss.PQ.idx.v[j], bus=ss.PQ.bus.v[j])
            if k == "ZIP":
                row.update(kpp=20.0, kpi=30.0, kpz=50.0, kqp=20.0, kqi=30.0, kqz=50.0)
        else:
            G = ss.PV if ss.PV.n else ss.Slack
            j = int(rng.integers(0, G.n))
            row = dict(u=0, bus=G.bus.v[j], gen=G.idx.v[j], Sn=100.0)
            if k in ("PVD1", "ESD1"):
                row["pqflag"] = 1
        try:
            ss.add(k, row)
            desc.append("%s(u=0)@%s" % (k, row.get("pq", row.get("gen"))))
        except Exception:
            continue
    return desc


def add_offline_converters(rng, ss):
    """Out-of-service voltage-source converter devices (REGCV1/2, REGF1/2/3: models that do carry the status flag in their
    equations) next to the machines of an in-service static generator: inert, like every other offline device."""
    desc = []
    kinds = ["REGCV1", "REGCV2", "REGF1", "REGF2", "REGF3", "REGCV1", "REGCV2", "REGF1", "REGF2"]
    for _ in range(int(rng.integers(1, 3))):
        k = kinds[int(rng.integers(0, len(kinds)))]
        G = ss.PV if ss.PV.n and rng.random() < 0.8 else ss.Slack
        j = int(rng.integers(0, G.n))
        row = dict(u=0, bus=G.bus.v[j], gen=G.idx.v[j], Sn=100.0)
        if rng.random() < 0.5:
            # non-default droops / split factors: none of them may matter for a device that is off
            g = float(np.round(rng.uniform(0.1, 1.0), 2))
            row.update(gammap=g, gammaq=g)
            row.update(dict(kw=5.0, kv=0.01, D=1.0) if k.startswith("REGCV") else dict(wdrp=0.03, Qdrp=0.05))
        try:
            ss.add(k, row)
            desc.append("%s(u=0)@%s" % (k, row["gen"]))
        except Exception:
            continue
    return desc


def offline_regf3_only(ss, tol):
    """Mechanism predicate of the known finding ``offline_regf3_zero_voltage_reference``: an out-of-service REGF3 device
    exists, its rows hold NaN, and every row of ANDES' own residual that is NaN or above the tolerance belongs to REGF3."""
    if not ss.REGF3.n or not np.any(np.array(ss.REGF3.u.v) == 0):
        return False
    names = list(ss.dae.x_name) + list(ss.dae.y_name)
    r = np.concatenate([ss.dae.f, ss.dae.g])
    with np.errstate(all="ignore"):
        bad = np.where(np.isnan(r) | (np.abs(r) > tol))[0]
    if not len(bad) or not np.any(np.isnan(r[bad])):
        return False
    return all(" REGF3 " in names[j] for j in bad)


def status_blind_offline(ss):
    """Models with an out-of-service device whose differential / algebraic equation strings never mention the status ``u``."""
    import re
    out = []
    for mname, m in ss.exist.tds.items():
        if m.n == 0 or "u" not in m.params or not np.any(np.array(m.u.v) == 0):
            continue
        strs = [v.e_str for v in m.cache.all_vars.values() if getattr(v, "e_str", None)]
        if strs and not any(re.search(r"(?<![A-Za-z0-9_])u(?![A-Za-z0-9_])", e) for e in strs):
            out.append(mname)
    return out


def open_limits(ss):
    """Limiter bounds that are plain input parameters are moved far out (before set-up): the composed operating point then lies
    inside all limiter ranges, which is the property's precondition (rows harvested from stock cases bring limits tuned for the
    operating point of their own case).  Returns the number of bounds changed."""
    from andes.core.param import NumParam
    nchg = 0
    for mname, m in ss.models.items():
        if m.n == 0 or not m.flags.tds or m.flags.pflow:
            continue
        for d in m.discrete.values():
            if type(d).__name__ not in ("Limiter", "HardLimiter", "AntiWindup", "AntiWindupRate", "SortedLimiter"):
                continue
            for side, far in (("lower", -999.0), ("upper", 999.0)):
                b = getattr(d, side, None)
                if isinstance(b, NumParam) and b.name in m.params and m.params[b.name] is b:
                    b.v = [far for _ in range(m.n)] if isinstance(b.v, list) else np.full(m.n, far)
                    nchg += 1
    return nchg


def run_composed(spec, res):
    rng = rng_for(spec.get("seed", 0), PROPERTY, 1, spec["index"])
    base = ["kundur/kundur_full.xlsx", "ieee14/ieee14_full.xlsx", "ieee39/ieee39_full.xlsx", "wscc9/wscc9.xlsx", "5bus/pjm5bus.xlsx"][int(rng.integers(0, 5))]
    ss, desc, count = compose(rng, base)
    rng2 = rng_for(spec.get("seed", 0), PROPERTY, 7, spec["index"])
    if rng2.random() < 0.5:
        off = add_offline_devices(rng2, ss)
        desc = off + desc
        res.count("offline_dynamic_devices_on_live_static_ones", len(off))
    rng3 = rng_for(spec.get("seed", 0), PROPERTY, 8, spec["index"])
    if rng3.random() < 0.4:
        off = add_offline_converters(rng3, ss)
        desc = off + desc
        res.count("offline_dynamic_devices_on_live_static_ones", len(off))
        res.count("offline_voltage_source_converters", len(off))
    if rng2.random() < 0.4:
        # documented load options: shares of constant power / current / impedance in the time-domain run (each triple sums to 1)
        wp = [(1.0, 0.0, 0.0), (0.0, 1.0, 0.0), (0.2, 0.5, 0.3), (0.5, 0.25, 0.25)][int(rng2.integers(0, 4))]
        wq = [(1.0, 0.0, 0.0), (0.0, 1.0, 0.0), (0.2, 0.5, 0.3), (0.25, 0.5, 0.25)][int(rng2.integers(0, 4))]
        ss.PQ.config.p2p, ss.PQ.config.p2i, ss.PQ.config.p2z = wp
        ss.PQ.config.q2q, ss.PQ.config.q2i, ss.PQ.config.q2z = wq
        desc = ["PQ weights p%s q%s" % (wp, wq)] + desc
        res.count("compositions_with_load_weights")
    if spec["index"] % 4 != 3:
        res.count("limiter_bounds_opened", open_limits(ss))
        desc = ["limits opened"] + desc
    res.count("composed_systems")
    tag = "composed on %s: %s" % (base, desc[:6])
    try:
        if not ss.setup():
            res.inconc("setup failed")
            return
    except Exception as e:
        res.inconc("setup raised %r" % (e,))
        return
    if not ss.PFlow.run():
        res.count("out_of_scope_pf_failed")
        return
    out = check_init(res, ss, tag)
    res.sig = "composed:%d:%d" % (spec.get("seed", 0), spec["index"])
    if "raised" in out:
        res.violate("init_raises", "%s: TDS.init() raised %r" % (tag, out["raised"]))
        return
    if out["active"] or out.get("illposed"):
        res.count("out_of_scope_limiter_or_time_driven")
    elif out["test_ok"] is not True:
        # mechanism predicate (not a case key): a stabiliser whose washout is switched to its lag mode (numerator constant 0)
        # while its input signal is non-zero in steady state has a non-zero steady output, which ANDES' stabiliser /
        # exciter initialisation has no place for
        mech = "init_failed_on_consistent_data"
        wn = str(out.get("worst_name"))
        blind = status_blind_offline(ss)
        if blind:
            # mechanism predicate: an out-of-service device of a model whose equations never refer to the status flag
            mech = "offline_device_equations_ignore_status"
            tag = "%s [out of service, equations without u: %s]" % (tag, blind)
        elif offline_regf3_only(ss, float(ss.TDS.config.tol)):
            # mechanism predicate: the only rows that fail are NaN rows of a model with an out-of-service REGF3 device
            mech = "offline_regf3_zero_voltage_reference"
        if wn.startswith(("Vss IEEEST", "vsout IEEEST")) and ss.IEEEST.n:
            I = ss.IEEEST
            if any(I.T5.v[k] == 0 and int(I.MODE.v[k]) in (3, 5) and I.u.v[k] != 0 for k in range(I.n)):
                mech = "pss_lag_mode_nonzero_steady_output"
        res.violate(mech, "%s: initialisation reports failure (independent residual %.3e at %s) with no limiter active" % (tag, out["worst"], wn),
                    worst=wn)
    res.nontrivial = count >= 4
    res.sample = dict(base=base, stacks=desc[:8], devices=count, test_ok=out["test_ok"], residual=out["worst"], drift=out.get("drift"), active=out["active"][:4])


def run_negative(spec, res):
    rng = rng_for(spec.get("seed", 0), PROPERTY, 2, spec["index"])
    kind = ["gamma", "perturbed_pf", "nan_param", "gamma_stock"][spec["index"] % 4]
    base = ["kundur/kundur_full.xlsx", "ieee14/ieee14_full.xlsx"][int(rng.integers(0, 2))]
    res.count("negative_cases")
    if kind == "gamma_stock":
        from vf import au
        ss = au.load(base, setup=False)
        disable_events(ss)
        ss.GENROU.gammap.v[0] = 0.7
        desc = ["stock with gammap=0.7"]
    else:
        ss, desc, count = compose(rng, base, negative="gamma" if kind == "gamma" else None)
        open_limits(ss)
    tag = "negative(%s) on %s" % (kind, base)
    tag_extra = ""
    try:
        ss.setup()
        if kind == "nan_param":
            # a non-finite value in one parameter that one of the dynamic equations reads: that residual is NaN,
            # every other residual is fine - "residuals are not zero" all the same
            import re
            from andes.core.param import NumParam
            cands = []
            for mn, md in ss.exist.tds.items():
                if md.n == 0 or md.flags.f_num or md.flags.g_num or md.flags.pflow:
                    continue          # (models that also take part in the power flow would spoil that instead)
                estr = " ".join(str(v.e_str) for v in md.cache.all_vars.values() if v.e_str is not None)
                for pn, par in md.params.items():
                    if isinstance(par, NumParam) and pn not in ("u",) and re.search(r"(?<![A-Za-z0-9_])%s(?![A-Za-z0-9_])" % re.escape(pn), estr):
                        cands.append((mn, pn))
            if not cands:
                res.inconc("no parameter to spoil")
                return
            mn, pn = cands[int(rng.integers(0, len(cands)))]
            md = ss.__dict__[mn]
            k = int(rng.integers(0, md.n))
            md.params[pn].v[k] = float("nan")
            desc = list(desc) + ["%s.%s[%d] = NaN" % (mn, pn, k)]
            tag_extra = " %s.%s[%d]=NaN" % (mn, pn, k)
        if not ss.PFlow.run():
            res.inconc("power flow failed")
            return
        if kind == "perturbed_pf":
            ss.PFlow.y_sol[ss.Bus.v.a[0]] *= 1.05
            ss.dae.y[ss.Bus.v.a[0]] *= 1.05
            ss.vars_to_models()
    except Exception as e:
        res.inconc("preparation raised %r" % (e,))
        return
    tag += tag_extra
    out = check_init(res, ss, tag, run_after=False)
    res.sig = "negative:%s:%d" % (kind, spec["index"])
    if "raised" in out:
        res.count("negative_reported_by_exception")
    else:
        if out["nan_real"]:
            # NaN in the very residual arrays the initialisation test looked at: not zero, whatever the limiters do
            res.count("negative_cases_with_nan_residual")
            if out["test_ok"] is not False:
                res.violate("init_residual_not_reported", "%s: ANDES' own residual after initialisation contains NaN but test_ok is %r (exit_code %d)" % (
                    tag, out["test_ok"], out["exit_code"]))
                return
        if out["active"]:
            res.count("out_of_scope_limiter_or_time_driven")
            res.nontrivial = True
            res.sample = dict(kind=kind, base=base, outcome="limiter active at the initial point: %s" % out["active"][:3])
            return
        bad = out["worst"] > 10 * float(ss.TDS.config.tol) or out["nan"] or out["nan_real"]
        if out["nan"] and not out["nan_real"]:
            res.count("negative_cases_with_nan_residual")
        if bad:
            res.count("negative_cases_with_residual")
        if bad and out["test_ok"] is not False:
            res.violate("init_residual_not_reported", "%s: residual %.3e at %s (NaN in the oracle's / ANDES' own residual: %s / %s) but test_ok is %r" % (
            tag, out["worst"], out.get("worst_name"), out["nan"], out["nan_real"], out["test_ok"]))
    res.nontrivial = True
    res.sample = dict(kind=kind, base=base, outcome={k: (v if not isinstance(v, Exception) else repr(v)) for k, v in out.items() if k != "active"})


def run_case(spec):
    res = Result(spec)
    {"stock": run_stock, "composed": run_composed, "negative": run_negative}[spec["kind"]](spec, res)
    return res


def finding_key(w, spec):
    return w.get("mech")
