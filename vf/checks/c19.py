"""
C19 - Cross-references between devices are resolved completely or rejected.

Monitors: (a) random ``System.add`` sequences checked after every operation against a dictionary
reference model of the group registry (bijection idx <-> (model, position), no overwrite, no
collision of generated indices) and brute-force answers to find_idx/get/idx2model/idx2uid queries;
(b) after ``setup()``: every BackRef list equals the multiset of referrers recomputed by an own scan;
DeviceFinder helpers link to the right target and are created at most once per target;
(c) dangling mandatory references must be reported (failed set-up / error), never resolved to
another device.
"""
import numpy as np

from vf.util import Result, rng_for

PROPERTY = "C19"
LEVEL = "exploration"
TIMEOUT = 600
RULE = ("(a) 30-120 random additions per system over PV/Slack (StaticGen), PQ, Line, Shunt, GENCLS/GENROU (SynGen), Bus with "
        "explicit / duplicate / missing / numeric / string / numeric-string indices, registry invariants and queries after every "
        "addition; (b) BackRef and DeviceFinder on stock cases and on systems with extra IEEEST/ST2CUT/exciters attached; "
        "(c) one dangling mandatory reference injected per case. Non-trivial: >= 10 additions or >= 5 back-reference lists "
        "checked; distinct = (sequence seed | case, injected reference).")
ASSUMPTIONS = ["an explicit index that is free must be kept exactly; an explicit duplicate must be renamed or rejected",
               "'required reference' := IdxParam declared mandatory=True (or the bus/gen/syn links every model declares so)"]
REQUIRED_OBS = {"additions_checked": 500, "queries_checked": 500, "backref_lists_checked": 100, "dangling_cases": 5,
                "device_finder_links_checked": 2}

STOCK = ["kundur/kundur_full.xlsx", "ieee14/ieee14_full.xlsx", "kundur/kundur_ieeest.xlsx", "kundur/kundur_st2cut.xlsx",
         "ieee39/ieee39_full.xlsx", "kundur/kundur_coi.xlsx", "ieee14/ieee14_pvd1.xlsx", "wecc/wecc_full.xlsx",
         "npcc/npcc.xlsx", "ieee14/ieee14_wt3.xlsx", "kundur/kundur_pmu.xlsx", "kundur/kundur_freq.xlsx"]


def cases(tier, seed):
    out = []
    n = 24 if tier == "quick" else 300
    for i in range(n):
        out.append(dict(id="addseq%04d" % i, kind="addseq", index=i))
    for c in (STOCK[:8] if tier == "quick" else STOCK):
        out.append(dict(id="backref:" + c, kind="backref", case=c))
    m = 10 if tier == "quick" else 80
    for i in range(m):
        out.append(dict(id="dangling%03d" % i, kind="dangling", index=i))
    m = 4 if tier == "quick" else 30
    for i in range(m):
        out.append(dict(id="finder%03d" % i, kind="finder", index=i))
    m = 6 if tier == "quick" else 40
    for i in range(m):
        out.append(dict(id="findergrp%03d" % i, kind="findergrp", index=i))
    return out


def worker_init():
    from vf import au
    au.quiet()


# ------------------------------------------------------------------------------------------------

GROUP_OF = dict(Bus="ACTopology", PV="StaticGen", Slack="StaticGen", PQ="StaticLoad", Line="ACLine", Shunt="StaticShunt",
                GENCLS="SynGen", GENROU="SynGen")


def idx_candidates(rng, existing):
    c = int(rng.integers(0, 9))
    if c == 0:
        return None
    if c == 1 and existing:
        return existing[int(rng.integers(0, len(existing)))]            # explicit duplicate
    if c == 2:
        return int(rng.integers(1, 40))
    if c == 3:
        return "D%d" % int(rng.integers(1, 40))
    if c == 4:
        return "%d" % int(rng.integers(1, 40))                           # numeric-looking string
    if c == 5:
        return float(rng.integers(1, 40))                                # 7.0 (as read from a spreadsheet)
    if c == 6:
        return float("nan")                                              # empty spreadsheet cell
    if c == 7:
        # a string that looks like an auto-generated index of this or another model
        return "%s_%d" % (["PV", "PQ", "Line", "GENROU", "Slack", "StaticGen"][int(rng.integers(0, 6))], int(rng.integers(1, 12)))
    return None


def run_addseq(spec, res):
    from vf import au
    rng = rng_for(spec.get("seed", 0), PROPERTY, 1, spec["index"])
    ss = au.new_system()
    ref = {g: {} for g in set(GROUP_OF.values())}       # group -> {idx: (model, position, marker)}
    order = {m: [] for m in GROUP_OF}                   # model -> [idx in order of adding]
    nops = int(rng.integers(30, 121))
    marker = 0
    busrefs = {}
    for op in range(nops):
        model = list(GROUP_OF)[int(rng.integers(0, len(GROUP_OF)))]
        grp = GROUP_OF[model]
        existing = list(ref[grp].keys())
        idx = idx_candidates(rng, existing)
        marker += 1
        params = dict(name="m%d" % marker)
        busref = [1, "B2", 3.0, "4"][int(rng.integers(0, 4))]      # references of mixed types (as in hand-made cases)
        if model in ("PV", "Slack", "PQ", "Shunt"):
            params.update(bus=busref, Vn=100.0 + marker)          # Vn carries a unique marker value
        elif model == "Line":
            params.update(bus1=1, bus2=2, Vn1=100.0 + marker)
        elif model in ("GENCLS", "GENROU"):
            params.update(bus=busref, gen=1, Vn=100.0 + marker)
        else:
            params.update(Vn=100.0 + marker)
        mk_field = "Vn1" if model == "Line" else "Vn"
        pd = dict(params)
        if idx is not None or rng.random() < 0.5:
            pd["idx"] = idx
        before = {g: dict(d) for g, d in ref.items()}
        try:
            got = ss.add(model, pd)
            raised = None
        except Exception as e:
            got, raised = None, e
        res.count("additions_checked")
        is_nan = isinstance(idx, float) and idx != idx
        want_explicit = (idx is not None) and not is_nan
        if raised is not None:
            # rejection is acceptable only for an explicit duplicate; nothing may have changed
            if not (want_explicit and idx in before[grp]):
                res.violate("add_raised", "System.add(%s, idx=%r) raised %r (registry had %d devices in %s)" % (model, idx, raised, len(before[grp]), grp))
            if len(getattr(ss, model).idx.v) != len(order[model]):
                res.violate("add_partial", "System.add(%s, idx=%r) raised but the model kept a device" % (model, idx))
            continue
        if want_explicit and idx not in before[grp]:
            res.count("explicit_free_idx")
            if not (got == idx and type(got) is type(idx)):
                res.violate("explicit_idx_not_kept", "System.add(%s, idx=%r) returned %r" % (model, idx, got))
        else:
            res.count("auto_or_duplicate_idx")
            if want_explicit:
                res.count("explicit_duplicates")
        if got in before[grp]:
            res.violate("idx_collision", "System.add(%s, idx=%r) returned %r which already belongs to %s in group %s" % (
                model, idx, got, before[grp][got][0], grp), idx=got)
            continue
        ref[grp][got] = (model, len(order[model]), 100.0 + marker)
        busrefs[(grp, got)] = busref
        order[model].append(got)
        # ---- registry invariants (own recount, after every addition)
        G = ss.groups[grp]
        keys = list(G._idx2model.keys())
        if len(keys) != len(set(keys)) or set(keys) != set(ref[grp].keys()):
            res.violate("registry_keys", "group %s registry keys differ from the devices added" % grp)
        for k, (mname, pos, mk) in ref[grp].items():
            if G._idx2model[k].class_name != mname:
                res.violate("registry_model", "group %s maps %r to %s, it was added to %s" % (grp, k, G._idx2model[k].class_name, mname))
        M = getattr(ss, model)
        if list(M.idx.v) != order[model]:
            res.violate("model_idx_order", "%s.idx.v = %s, additions were %s" % (model, M.idx.v[-5:], order[model][-5:]))
        if sorted(G.uid.values()) != list(range(len(ref[grp]))):
            res.violate("registry_uid", "group %s uid values are not 0..n-1" % grp)
        # no overwrite: every earlier device still carries its marker value
        if op % 7 == 0:
            for k, (mname, pos, mk) in ref[grp].items():
                vals = getattr(getattr(ss, mname), "Vn1" if mname == "Line" else "Vn").v
                if vals[pos] != mk:
                    res.violate("device_overwritten", "%s %r lost its data (marker %r != %r)" % (mname, k, vals[pos], mk))
                    break
    # ---- queries against brute force over the reference
    for model in GROUP_OF:
        M = getattr(ss, model)
        M.list2array()
    for grp, d in ref.items():
        if not d:
            continue
        G = ss.groups[grp]
        keys = list(d.keys())
        for q in range(12):
            k = keys[int(rng.integers(0, len(keys)))]
            mname, pos, mk = d[k]
            res.count("queries_checked")
            try:
                if G.idx2model(k).class_name != mname:
                    res.violate("idx2model", "%s.idx2model(%r) -> %s, expected %s" % (grp, k, G.idx2model(k).class_name, mname))
                if getattr(ss, mname).idx2uid(k) != pos:
                    res.violate("idx2uid", "%s.idx2uid(%r) -> %r, expected %r" % (mname, k, getattr(ss, mname).idx2uid(k), pos))
                src = "Vn1" if mname == "Line" else "Vn"
                gv = G.get(src, k, "v")
                mv = getattr(ss, mname).get(src, k, "v")
                if gv != mk or mv != mk:
                    res.violate("get_wrong_device", "get(%s, %r) through group/model = %r/%r, the device holds %r" % (src, k, gv, mv, mk))
                # find by field value: name is unique by construction
                name = "m%d" % int(mk - 100)
                f = G.find_idx("name", [name])
                if f != [k]:
                    res.violate("find_idx", "%s.find_idx(name=%r) -> %r, the device with that name is %r" % (grp, name, f, k))
                f2 = getattr(ss, mname).find_idx([src, "name"], [[mk], [name]])
                if f2 != [k]:
                    res.violate("find_idx", "%s.find_idx([%s, name]) -> %r expected [%r]" % (mname, src, f2, k))
            except Exception as e:
                res.violate("query_raised", "query on %s %r raised %r" % (grp, k, e), idx=k)
        # vector queries with mixed index types
        if len(keys) >= 3:
            sub = [keys[int(i)] for i in rng.choice(len(keys), size=3, replace=False)]
            res.count("queries_checked")
            try:
                src = "name"
                got = list(G.get(src, sub, "v"))
                want = ["m%d" % int(d[k][2] - 100) for k in sub]
                if got != want:
                    res.violate("get_vector", "%s.get(name, %r) -> %r expected %r" % (grp, sub, got, want))
                if grp != "ACLine":
                    gotv = list(G.get("Vn", sub, "v"))
                    if gotv != [d[k][2] for k in sub]:
                        res.violate("get_vector", "%s.get(Vn, %r) -> %r" % (grp, sub, gotv))
                if grp in ("StaticGen", "StaticLoad", "StaticShunt", "SynGen"):
                    # an index-valued field: the values are device indices of mixed types
                    wantb = [busrefs[(grp, k)] for k in sub]
                    gotb = list(G.get("bus", sub, "v"))
                    res.count("queries_checked")
                    if [str(x) for x in gotb] != [str(x) for x in wantb] and [float(x) if not isinstance(x, str) else x for x in gotb] != [float(x) if not isinstance(x, str) else x for x in wantb]:
                        res.violate("get_vector", "%s.get(bus, %r) -> %r expected %r" % (grp, sub, gotb, wantb))
            except Exception as e:
                vt = sorted(set(type(busrefs.get((grp, k), 0)).__name__ for k in sub))
                mixed = ("str" in vt and len(vt) > 1) and isinstance(e, ValueError)
                res.violate("group_get_mixed_value_types" if mixed else "query_raised",
                            "%s.get on indices %r raised %r (types of the requested index-valued field: %s)" % (grp, sub, e, vt), types=vt)
        # missing key
        res.count("queries_checked")
        try:
            r = G.find_idx("name", ["no-such-name"], allow_none=True, default=None)
            if r != [None]:
                res.violate("find_idx_missing", "find_idx for a missing value returned %r" % (r,))
        except Exception as e:
            res.violate("query_raised", "find_idx(allow_none=True) raised %r" % (e,))
        try:
            G.find_idx("name", ["no-such-name"])
            res.violate("find_idx_missing", "find_idx for a missing value did not raise")
        except IndexError:
            pass
        # allow_all with a shared value
        def _k(i):
            # the text '30' and the number 30 are different devices
            return ("s", i) if isinstance(i, str) else ("n", float(i))
        try:
            allm = G.find_idx("u", [1.0], allow_none=True, default=None, allow_all=True)
            res.count("queries_checked")
            # brute force over every model of the group: all devices whose u equals 1, whichever model they belong to
            want = set()
            for mname_ in G.models:
                mm_ = getattr(ss, mname_)
                want.update(_k(i) for i, u_ in zip(mm_.idx.v, mm_.u.v) if u_ == 1.0)
            got = [_k(i) for i in (allm[0] if allm and isinstance(allm[0], (list, tuple, np.ndarray)) else allm) if i is not None]
            res.count("allow_all_group_queries")
            if len({type(getattr(ss, m_)).__name__ for m_ in G.models if getattr(ss, m_).n}) > 1:
                res.count("allow_all_group_queries_spanning_models")
            if set(got) != want or len(got) != len(set(got)):
                res.violate("find_idx_allow_all", "%s.find_idx(u=1, allow_all=True) returned %d devices %s..., brute force over the models %s finds %d" % (
                    grp, len(got), sorted(map(str, got))[:5], [m_ for m_ in G.models if getattr(ss, m_).n], len(want)))
        except Exception as e:
            res.violate("query_raised", "find_idx(allow_all=True) raised %r" % (e,))
    res.sig = "addseq:%d:%d" % (spec.get("seed", 0), spec["index"])
    res.nontrivial = res.obs.get("additions_checked", 0) >= 10
    res.sample = dict(additions=nops, explicit_duplicates=res.obs.get("explicit_duplicates", 0),
                      groups={g: len(d) for g, d in ref.items()})


# ------------------------------------------------------------------------------------------------

def expected_backrefs(ss):
    """Own scan: {(dest_name, ref_name): {dest_idx: [referrer idx, ...]}}."""
    exp = {}
    holders = list(ss.models.values()) + list(ss.groups.values())
    for dest in holders:
        if dest.n == 0:
            continue
        for rname in dest.services_ref:
            exp[(dest.class_name, rname)] = {k: [] for k in (dest.idx.v if hasattr(dest, "idx") else list(dest._idx2model.keys()))}
    for src in ss.models.values():
        if src.n == 0:
            continue
        for p in src.idx_params.values():
            if p.model is None:
                continue
            for dest_name in (p.model,):
                if dest_name not in ss.models and dest_name not in ss.groups:
                    continue
                dest = ss.__dict__[dest_name]
                # the reference is visible to the named model/group and (for a group) to the member model
                targets = [dest]
                for rname in (src.class_name, src.group):
                    for sidx, didx in zip(src.idx.v, p.v):
                        if didx is None or (isinstance(didx, float) and didx != didx):
                            continue
                        holders_for = []
                        if dest_name in ss.groups:
                            G = ss.groups[dest_name]
                            if didx in G._idx2model:
                                holders_for = [G, G._idx2model[didx]]
                        else:
                            if didx in dest.uid:
                                holders_for = [dest]
                        for h in holders_for:
                            key = (h.class_name, rname)
                            if key in exp and didx in exp[key]:
                                exp[key][didx].append(sidx)
    return exp


def check_backrefs(res, ss, tag):
    exp = expected_backrefs(ss)
    for (dname, rname), table in exp.items():
        dest = ss.__dict__[dname]
        ref = dest.services_ref[rname]
        idxs = list(dest.idx.v) if hasattr(dest, "idx") else list(dest._idx2model.keys())
        for pos, k in enumerate(idxs):
            res.count("backref_lists_checked")
            got = list(ref.v[pos]) if ref.v is not None and pos < len(ref.v) else None
            want = table[k]
            if want:
                res.count("backref_lists_nonempty")
            if got is None or sorted(map(str, got)) != sorted(map(str, want)):
                res.violate("backref_mismatch", "%s: %s.%s[%r] = %r, devices pointing to it: %r" % (tag, dname, rname, k, got, want),
                            dest=dname, ref=rname)
                return


def run_backref(spec, res):
    from vf import au
    ss = au.load(spec["case"])
    check_backrefs(res, ss, spec["case"])
    # a System that is set up again (reset) has had every referrer collected a second time
    if not res.violations:
        try:
            ss.PFlow.run()
            ss.reset()
            res.count("backref_checks_after_reset")
            check_backrefs(res, ss, spec["case"] + " after PFlow.run + reset()")
            if not res.violations:
                ss.reset()
                check_backrefs(res, ss, spec["case"] + " after a second reset()")
        except Exception as e:
            res.note("reset raised %r" % (e,))
    # every mandatory reference of a successfully set-up system exists in its target
    n_bad = mandatory_refs_exist(res, ss, spec["case"])
    res.sig = "backref:" + spec["case"]
    res.nontrivial = res.obs.get("backref_lists_nonempty", 0) >= 5
    res.sample = dict(case=spec["case"], lists=res.obs.get("backref_lists_checked", 0), nonempty=res.obs.get("backref_lists_nonempty", 0))


def mandatory_refs_exist(res, ss, tag):
    bad = 0
    for m in ss.models.values():
        if m.n == 0:
            continue
        for pname, p in m.idx_params.items():
            if not p.get_property('mandatory') or p.model is None or (p.model not in ss.models and p.model not in ss.groups):
                continue
            dest = ss.__dict__[p.model]
            known = dest.uid if p.model in ss.models else dest._idx2model
            for sidx, v in zip(m.idx.v, p.v):
                res.count("mandatory_refs_checked")
                if v not in known:
                    bad += 1
                    res.violate("dangling_reference_accepted", "%s: setup() succeeded but %s %r has %s=%r which is not a %s" % (
                        tag, m.class_name, sidx, pname, v, p.model), model=m.class_name, param=pname)
                    return bad
    return bad


def run_dangling(spec, res):
    """Inject one dangling required reference into a valid case; it must be reported."""
    from vf import au
    rng = rng_for(spec.get("seed", 0), PROPERTY, 3, spec["index"])
    case = ["kundur/kundur_full.xlsx", "ieee14/ieee14_full.xlsx", "kundur/kundur_ieeest.xlsx"][spec["index"] % 3]
    ss = au.load(case, setup=False)
    choices = [("PQ", "bus", dict(Vn=110.0, p0=0.1, q0=0.0)), ("GENROU", "gen", None), ("GENROU", "bus", None), ("EXDC2", "syn", None),
               ("TGOV1", "syn", None), ("Line", "bus1", None), ("Line", "bus2", None), ("PV", "bus", dict(Vn=110.0, p0=0.1, v0=1.0)),
               ("Shunt", "bus", dict(Vn=110.0, b=0.1)), ("IEEEST", "avr", None), ("Toggle", "dev", None)]
    mname, field, fresh = choices[int(rng.integers(0, len(choices)))]
    M = getattr(ss, mname)
    bogus = [9999, "NOPE", 9999.0][int(rng.integers(0, 3))]
    if fresh is not None:
        d = dict(fresh)
        d[field] = bogus
        ss.add(mname, d)
        target = "new %s" % mname
    elif M.n > 0:
        k = int(rng.integers(0, M.n))
        getattr(M, field).v[k] = bogus
        target = "%s %r" % (mname, M.idx.v[k])
    else:
        res.inconc("model %s has no device in %s" % (mname, case))
        return
    res.count("dangling_cases")
    outcome = None
    try:
        ok = ss.setup()
        outcome = "setup returned %r" % ok
        if ok:
            # a later stage may still refuse: run the routines a user would run
            pf = ss.PFlow.run()
            outcome += ", PFlow %r" % pf
            if pf:
                tds = None
                ss.TDS.config.tf = 0.1
                ss.TDS.config.no_tqdm = 1
                try:
                    tds = ss.TDS.run()
                except Exception as e:
                    tds = "raised %s" % type(e).__name__
                outcome += ", TDS %r" % (tds,)
                if tds is True and ss.exit_code == 0:
                    res.violate("dangling_reference_accepted", "%s: %s.%s=%r (no such device): setup, power flow and simulation all "
                                "reported success" % (case, target, field, bogus), model=mname, field=field)
    except Exception as e:
        outcome = "raised %s: %s" % (type(e).__name__, str(e)[:100])
    res.count("dangling_reported" if not res.violations else "dangling_accepted")
    res.sig = "dangling:%s:%s:%s:%r" % (case, mname, field, bogus)
    res.nontrivial = True
    res.sample = dict(case=case, target=target, field=field, value=bogus, outcome=outcome)


def run_finder(spec, res):
    """DeviceFinder: helpers are found or created once per target and linked to the right target."""
    from vf import au
    rng = rng_for(spec.get("seed", 0), PROPERTY, 4, spec["index"])
    ss = au.load("kundur/kundur_full.xlsx", setup=False)
    nb0 = ss.BusFreq.n
    exc = list(ss.Exciter._idx2model.keys())
    added = []
    # several stabilisers, some on the same exciter/bus, some with an explicit existing BusFreq
    pre = None
    if rng.random() < 0.5:
        b = ss.Bus.idx.v[int(rng.integers(0, ss.Bus.n))]
        pre = ss.add("BusFreq", dict(bus=b))
    for j in range(int(rng.integers(2, 6))):
        avr = exc[int(rng.integers(0, len(exc)))]
        d = dict(avr=avr, MODE=int(rng.choice([1, 3, 6])), A1=1, A2=1, A3=1, A4=1, A5=1, A6=1, T1=1, T2=1, T3=1, T4=1, T5=10, T6=10, KS=1,
                 LSMAX=0.1, LSMIN=-0.1, VCU=999, VCL=-999)
        if pre is not None and rng.random() < 0.3:
            d["busf"] = pre
        added.append((ss.add("IEEEST", d), avr, d.get("busf")))
    try:
        ok = ss.setup()
    except Exception as e:
        res.violate("setup_raised", "setup with additional IEEEST devices raised %r" % (e,))
        return
    M = ss.IEEEST
    for (idx, avr, busf) in added:
        pos = M.idx2uid(idx)
        syn = ss.Exciter.get("syn", avr, "v")
        bus = ss.SynGen.get("bus", syn, "v")
        bf = M.busfreq.v[pos] if M.busfreq.v is not None else None
        res.count("device_finder_links_checked")
        if busf is not None:
            if bf != busf:
                res.violate("finder_ignored_given", "IEEEST %r was given busf=%r but is linked to %r" % (idx, busf, bf))
            continue
        if bf is None or bf not in ss.BusFreq.uid:
            res.violate("finder_missing", "IEEEST %r has no bus-frequency device (busfreq=%r)" % (idx, bf))
            continue
        tb = ss.BusFreq.get("bus", bf, "v")
        if tb != bus:
            res.violate("finder_wrong_target", "IEEEST %r (generator bus %r) is linked to BusFreq %r measuring bus %r" % (idx, bus, bf, tb))
    # at most one helper per target bus among those created
    buses = [ss.BusFreq.bus.v[i] for i in range(nb0 + (1 if pre is not None else 0), ss.BusFreq.n)]
    if len(buses) != len(set(buses)):
        res.violate("finder_duplicate_helper", "several bus-frequency helpers were auto-created for one bus: %r" % (buses,))
    if pre is not None:
        pb = ss.BusFreq.get("bus", pre, "v")
        if pb in buses:
            res.violate("finder_duplicate_helper", "a helper was created for bus %r although BusFreq %r already measures it" % (pb, pre))
    check_backrefs(res, ss, "finder")
    res.sig = "finder:%d:%d" % (spec.get("seed", 0), spec["index"])
    res.nontrivial = True
    res.sample = dict(ieeest_added=len(added), busfreq_before=nb0, busfreq_after=ss.BusFreq.n, preexisting=pre)


def same_idx(a, b):
    try:
        return float(a) == float(b)
    except (TypeError, ValueError):
        return str(a) == str(b)


def run_findergrp(spec, res):
    """A finder whose target is a *group*: grid-forming converters (REGF2) name, find or create a device of group PLL
    (models PLL1 / PLL2).  Own expectation from the input rows only."""
    import json
    import os
    import andes
    from vf import au
    rng = rng_for(spec.get("seed", 0), PROPERTY, 6, spec["index"])
    with open(au.case("ieee14/ieee14.json")) as f:
        data = json.load(f)
    gens = [d for d in data["GENROU"]]
    k = int(rng.integers(1, 3))
    picked = [gens[int(i)] for i in rng.choice(len(gens), size=k, replace=False)]
    data["REGF2"] = []
    expect = []          # (converter idx, bus, named pll or None)
    plls = {}            # idx -> (model, bus)
    for j, g in enumerate(picked):
        data["GENROU"] = [d for d in data["GENROU"] if d["idx"] != g["idx"]]
        gone = set()
        for mdl in list(data):
            rows = data[mdl]
            if isinstance(rows, list) and rows and isinstance(rows[0], dict) and "syn" in rows[0]:
                gone.update(str(d["idx"]) for d in rows if d.get("syn") == g["idx"])
                data[mdl] = [d for d in rows if d.get("syn") != g["idx"]]
        for mdl in list(data):
            rows = data[mdl]
            if isinstance(rows, list) and rows and isinstance(rows[0], dict) and "avr" in rows[0]:
                data[mdl] = [d for d in rows if str(d.get("avr")) not in gone]
        scen = ["named_other_model", "named", "unnamed_existing", "unnamed_none"][(spec["index"] + j) % 4]
        row = dict(idx="GFM_%d" % j, u=1.0, name="GFM_%d" % j, bus=g["bus"], gen=g["gen"], Sn=100.0)
        named = None
        if scen in ("named", "named_other_model", "unnamed_existing"):
            pm = "PLL2" if scen == "named" else ("PLL1" if scen == "named_other_model" else ["PLL1", "PLL2"][int(rng.integers(0, 2))])
            pidx = ["PLL_%s" % "ABC"[j], 70 + j][int(rng.integers(0, 2))]
            data.setdefault(pm, []).append(dict(idx=pidx, u=1.0, name="P%d" % j, bus=g["bus"]))
            plls[str(pidx)] = (pm, g["bus"])
            if scen != "unnamed_existing":
                row["pll"] = pidx
                named = pidx
        data["REGF2"].append(row)
        expect.append((row["idx"], g["bus"], named, scen))
    with au.Scratch("c19") as sd:
        path = os.path.join(sd, "regf2.json")
        with open(path, "w") as f:
            json.dump(data, f)
        try:
            ss = au.load(path)
        except Exception as e:
            res.violate("setup_raised", "set-up of ieee14 with REGF2 %s raised %r" % ([e_[3] for e_ in expect], e))
            return
        before = set(plls)
        after = [str(i) for i in ss.PLL.get_all_idxes()]
        created = [i for i in after if i not in before]
        for cidx, bus, named, scen in expect:
            pos = ss.REGF2.idx2uid(cidx)
            linked = ss.REGF2.pllidx.v[pos]
            res.count("device_finder_links_checked")
            res.count("device_finder_group_links_" + scen)
            if named is not None:
                if str(linked) != str(named):
                    res.violate("finder_ignored_given", "REGF2 %r names PLL device %r (a %s in group PLL) but is linked to %r; group PLL now holds %s" % (
                        cidx, named, plls[str(named)][0], linked, after), scenario=scen)
                continue
            if str(linked) not in after:
                res.violate("finder_missing", "REGF2 %r is linked to %r which is not in group PLL (%s)" % (cidx, linked, after), scenario=scen)
                continue
            lb = ss.PLL.get("bus", linked, "v")
            if not same_idx(lb, bus):
                res.violate("finder_wrong_target", "REGF2 %r at bus %r is linked to PLL %r at bus %r" % (cidx, bus, linked, lb), scenario=scen)
            if scen == "unnamed_existing" and str(linked) in created:
                res.violate("finder_duplicate_helper", "REGF2 %r at bus %r: a helper PLL %r was created although %s already measures that bus" % (
                    cidx, bus, linked, [i for i, (m_, b_) in plls.items() if same_idx(b_, bus)]), scenario=scen)
        # nothing created beyond one helper per converter that had nothing to find
        need = sum(1 for e_ in expect if e_[3] == "unnamed_none")
        if len(created) > need:
            res.violate("finder_duplicate_helper", "%d PLL devices were created (%s) for %d converters without one; scenarios %s" % (
                len(created), created, need, [e_[3] for e_ in expect]))
        # the converter reads the output of the device it is linked to
        try:
            ss.PFlow.run()
            ss.TDS.config.no_tqdm = 1
            ss.TDS.init()
            for cidx, bus, named, scen in expect:
                pos = ss.REGF2.idx2uid(cidx)
                linked = ss.REGF2.pllidx.v[pos]
                if str(linked) in after:
                    used = int(ss.REGF2.plldw.a[pos])
                    want = int(np.ravel(ss.PLL.get("PI_y", linked, "a"))[0])
                    res.count("device_finder_addresses_checked")
                    if used != want:
                        res.violate("finder_wrong_address", "REGF2 %r is linked to PLL %r but reads address %d, PI_y of that device is at %d" % (
                            cidx, linked, used, want))
        except Exception as e:
            res.note("power flow / initialisation raised %r" % (e,))
        check_backrefs(res, ss, "findergrp")
    res.sig = "findergrp:%d:%d" % (spec.get("seed", 0), spec["index"])
    res.nontrivial = True
    res.sample = dict(scenarios=[e_[3] for e_ in expect], pll_devices=after, created=created)


def run_case(spec):
    res = Result(spec)
    {"addseq": run_addseq, "backref": run_backref, "dangling": run_dangling, "finder": run_finder, "findergrp": run_findergrp}[spec["kind"]](spec, res)
    return res


def finding_key(w, spec):
    return w.get("mech")
