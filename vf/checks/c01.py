"""
C01 - Converged power flow satisfies the AC network equations of the input data.

Monitor: the real ``PFlow.run()`` on networks generated from a solution (so feasibility is
known) and on the stock static cases; oracle: independent complex power balance computed from
the input-base device data (vf.oracle.powerflow) and an own dense NR that certifies
well-posedness.  Presentations of one physical network (device order, index type, device bases,
file formats) and solver configurations must agree.
"""
import os

import numpy as np

from vf.util import Result, rng_for

PROPERTY = "C01"
LEVEL = "exploration"
TIMEOUT = 600
RULE = ("cases: (a) random networks generated from a design solution (3-30 buses quick, up to 80 thorough; asymmetric "
        "branch shunts, taps, phase shifters, device bases != system base, offline devices, several loads per bus), each "
        "solved in several presentations (shuffled order, string/numeric idx, re-based device data, xlsx/json/MATPOWER "
        "round trip) and solver configurations (NR/dishonest/NK x klu/umfpack/spsolve x linsolve x ipadd); (b) stock "
        "static cases. A case is non-trivial when PFlow reported convergence and the independent power balance was "
        "evaluated at >= 3 non-islanded buses; distinct = distinct (network seed | stock file).")
ASSUMPTIONS = ["textbook pi-model with the ideal transformer on the from side and z_sys = z (Vn1^2/Sn)/(Vb1^2/Sb)",
               "'well-posed within normal loading' := own dense NR converges from a flat start in <= 10 iterations",
               "ANDES' documented +1e-8 on line r and x is given an analytic allowance, not a loosened tolerance"]
REQUIRED_OBS = {"pf_converged": 5, "buses_balanced": 30}

K_TOL = 4.0

STOCK = ["ieee14/ieee14.json", "ieee14/ieee14.raw", "ieee39/ieee39.xlsx", "ieee39/ieee39.raw", "kundur/kundur_full.xlsx",
         "kundur/kundur.raw", "matpower/case5.m", "matpower/case14.m", "matpower/case118.m", "matpower/case300.m",
         "npcc/npcc.xlsx", "npcc/npcc.raw", "wecc/wecc_full.xlsx", "wecc/wecc.raw", "wscc9/wscc9_3wxfr.raw", "5bus/pjm5bus.xlsx", "smib/SMIB.xlsx",
         "wscc9/wscc9.raw", "wscc9/wscc9.xlsx", "GBnetwork/GBnetwork.m", "ieee14/ieee14_linetrip.xlsx",
         "nordic44/N44_BC.raw"]

METHODS = ["NR", "dishonest", "NK"]
LIBS = ["klu", "umfpack", "spsolve"]


def cases(tier, seed):
    out = []
    n_net = 48 if tier == "quick" else 500
    for i in range(n_net):
        out.append(dict(id="gen%04d" % i, kind="gen", index=i, nvar=4 if tier == "quick" else 9,
                        big=(tier == "thorough" and i % 10 == 0)))
    for rel in STOCK:
        out.append(dict(id="stock:" + rel, kind="stock", path=rel))
    # histories on ONE System object: switch branches / loads, re-run, switch back, re-run ...
    for i in range(16 if tier == "quick" else 160):
        out.append(dict(id="seq%04d" % i, kind="seq", index=i))
    return out


def worker_init():
    from vf import au
    au.quiet()


# ------------------------------------------------------------------------------------------------

def gen_outputs(ss, d):
    """Generator output per bus read from the solved system (positions by own idx map)."""
    pos = {b: i for i, b in enumerate(d["bus_idx"])}
    pg = np.zeros(d["nb"])
    qg = np.zeros(d["nb"])
    for k in range(ss.PV.n):
        if ss.PV.u.v[k] != 0:
            b = pos[ss.PV.bus.v[k]]
            pg[b] += ss.PV.p0.v[k]
            qg[b] += ss.PV.q.v[k]
    for k in range(ss.Slack.n):
        if ss.Slack.u.v[k] != 0:
            b = pos[ss.Slack.bus.v[k]]
            pg[b] += ss.Slack.p.v[k]
            qg[b] += ss.Slack.q.v[k]
    return pg, qg


def check_solution(res, ss, tag, tol):
    """Independent balance + set-point checks on a system whose PFlow reported convergence."""
    from vf.oracle import powerflow as opf
    d, unsupported = opf.extract(ss)
    if unsupported:
        res.count("oracle_not_applicable")
        res.note("%s: models outside the oracle: %s" % (tag, unsupported))
        return None
    V = np.array(ss.Bus.v.v) * np.exp(1j * np.array(ss.Bus.a.v))
    if not np.all(np.isfinite(V)):
        res.violate("converged_nonfinite", "%s: PFlow reported convergence with non-finite voltages" % tag)
        return None
    pg, qg = gen_outputs(ss, d)
    mis, nconv = opf.mismatch(d, V, pg, qg)
    allow = opf.branch_allowance(d, V)
    deg = opf.degree(d)
    live = np.where(deg > 0)[0]
    Y = opf.ybus(d)
    rows = np.abs(Y) @ np.abs(V) * np.abs(V)          # scale of one bus equation
    bound = 2.0 * allow + K_TOL * tol * (1.0 + rows) + 1e-11
    ratio = np.zeros(d["nb"])
    ratio[live] = np.abs(mis[live]) / bound[live]
    res.count("buses_balanced", len(live))
    res.maxobs("max_balance_ratio", float(ratio.max()) if len(live) else 0.0)
    if len(live) and ratio.max() > 1.0:
        w = int(np.argmax(ratio))
        res.violate("power_balance", "%s: bus %r mismatch %.3e > bound %.3e (|V|=%.4f)" % (
            tag, d["bus_idx"][w], abs(mis[w]), bound[w], abs(V[w])), bus=d["bus_idx"][w], mismatch=abs(mis[w]),
            bound=float(bound[w]))
    # set points
    sl, pv = opf.bus_types(d)
    vtol = K_TOL * tol + 1e-9   # PV.q rows carry diag_eps: (v0 - v) is driven to tol, see q.e_str
    for k in range(d["pv"]["n"]):
        b = int(d["pv"]["bus"][k])
        if d["pv"]["u"][k] != 0 and deg[b] > 0 and ss.PV.config.pv2pq == 0:
            res.count("pv_setpoints")
            if abs(abs(V[b]) - d["pv"]["v0"][k]) > vtol:
                res.violate("pv_setpoint", "%s: PV %r bus |V|=%.8f set-point %.8f" % (tag, d["pv"]["idx"][k], abs(V[b]),
                                                                                       d["pv"]["v0"][k]))
    for k in range(d["slack"]["n"]):
        b = int(d["slack"]["bus"][k])
        if d["slack"]["u"][k] != 0 and deg[b] > 0:
            res.count("slack_setpoints")
            if abs(abs(V[b]) - d["slack"]["v0"][k]) > vtol or abs(np.angle(V[b] * np.exp(-1j * d["slack"]["a0"][k]))) > vtol:
                res.violate("slack_setpoint", "%s: slack %r at %.8f/%.8f, reference %.8f/%.8f" % (
                    tag, d["slack"]["idx"][k], abs(V[b]), np.angle(V[b]), d["slack"]["v0"][k], d["slack"]["a0"][k]))
    return dict(d=d, V=V, live=live)


def run_pf(ss):
    try:
        ok = bool(ss.PFlow.run())
    except Exception as e:  # a raised error is a reported failure, not a wrong answer
        return False, repr(e)[:200]
    return ok, None


def rc_for(scratch, name, method="NR", lib="klu", linsolve=0, ipadd=1, tol=None, mva=None):
    from vf import au
    sec = {"PFlow": dict(method=method, sparselib=lib, linsolve=linsolve, report=0)}
    if tol is not None:
        sec["PFlow"]["tol"] = tol
    sysd = dict(ipadd=ipadd)
    if mva is not None:
        sysd["mva"] = mva
    sec["System"] = sysd
    return au.write_rc(os.path.join(scratch, name + ".rc"), sec)


def run_gen(spec, res):
    from vf import au
    from vf.gen import network as gn
    from vf.gen import formats as fm
    from vf.oracle import powerflow as opf
    import andes

    seed = spec.get("seed", 0)
    rng = rng_for(seed, PROPERTY, spec["index"])
    # rejection sampling: the oracle decides what "well-posed within normal loading" means
    net = None
    for attempt in range(8):
        nb = int(rng.integers(31, 81)) if spec.get("big") else None
        cand = gn.gen_network(rng, nbus=nb, hard=True)
        ref = opf.solve(gn.to_oracle(cand), tol=1e-11, max_iter=10)
        res.count("networks_generated")
        vdes = np.array(cand["sol"]["vm"]) * np.exp(1j * np.array(cand["sol"]["va"]))
        # well-posed := own NR reaches the design (normal, high-voltage) root from a flat start
        if ref["converged"] and np.max(np.abs(ref["V"] - vdes)) < 1e-6:
            net = cand
            break
        res.count("networks_rejected_by_oracle")
    if net is None:
        res.inconc("no well-posed network in 8 draws")
        return
    res.sig = "gen:%d:%d" % (seed, spec["index"])
    vdes_net = np.array(net["sol"]["vm"]) * np.exp(1j * np.array(net["sol"]["va"]))

    with au.Scratch("c01") as sd:
        # --- presentation 0: as generated, DEFAULT configuration (the configured tolerance is 1e-6)
        runs = []

        def solve_presentation(tag, pnet, rc, tol, busmap, method="NR", check_conv=True, via=None):
            try:
                if via is None:
                    ss = gn.build_system(pnet, config_path=rc)
                elif via in ("m", "raw"):
                    path = os.path.join(sd, "%s.%s" % (tag.split("[")[0], via))
                    with open(path, "w") as f:
                        f.write(fm.mpc_text(pnet) if via == "m" else fm.raw_text(pnet))
                    ss = au.load(path, config_path=rc)
                    res.count("via_matpower_text" if via == "m" else "via_raw_text")
                else:
                    ss0 = gn.build_system(pnet, config_path=rc)
                    path = os.path.join(sd, "%s.%s" % (tag.split("[")[0], via))
                    andes.io.dump(ss0, via, full_path=path, overwrite=True)
                    ss = au.load(path, config_path=rc)
                    res.count("via_" + via)
            except Exception as e:
                res.violate("build_failed", "%s: building/loading the system raised %r" % (tag, e))
                return
            ok, err = run_pf(ss)
            res.count("pf_runs")
            res.count("pf_runs_" + method)
            if not ok:
                if check_conv:
                    res.violate("no_convergence", "%s: network certified well-posed (own NR: %d iterations from flat start) "
                                "but PFlow.run() returned False (%s)" % (tag, ref["iters"], err), tag=tag)
                else:
                    res.count("nonconverged_" + method)
                return
            res.count("pf_converged")
            info = check_solution(res, ss, tag, tol)
            if info is None:
                return
            # voltages keyed by the ORIGINAL bus id
            # (a file round trip may turn the string "1004" into the number 1004: compare by text)
            inv = {str(v): k for k, v in busmap.items()}
            vb = {inv[str(b)]: info["V"][i] for i, b in enumerate(info["d"]["bus_idx"])}
            runs.append((tag, vb, tol, method))

        ident = {b["idx"]: b["idx"] for b in net["bus"]}
        rc0 = rc_for(sd, "default", mva=net["mva"])
        os.remove(rc0)
        rc0 = au.write_rc(rc0, {"System": {"mva": net["mva"]}, "PFlow": {"report": 0}})
        solve_presentation("base/default-config", net, rc0, 1e-6, ident)

        nvar = spec.get("nvar", 4)
        styles = ["num", "str", "strnum"]
        combos = [(m, lib, ls, ip) for m in METHODS for lib in LIBS for ls in (0, 1) for ip in (0, 1)]
        for v in range(nvar):
            style = styles[int(rng.integers(0, 3))]
            shuffle = bool(rng.integers(0, 2))
            rebase = bool(rng.integers(0, 2))
            m, lib, ls, ip = combos[int(rng.integers(0, len(combos)))]
            if m == "NK" and rng.random() < 0.7:
                m = "NR"
            via = [None, None, "xlsx", "json", "m", "raw"][int(rng.integers(0, 6))]
            if via in ("m", "raw"):
                style = "num"      # MATPOWER / RAW can only carry numeric bus numbers
            p = gn.present(net, rng, shuffle=shuffle, idx_style=style, rebase=rebase)
            pi = gn.present(net, np.random.default_rng(0), shuffle=False, idx_style=style, rebase=False)
            busmap = {b0["idx"]: b1["idx"] for b0, b1 in zip(net["bus"], pi["bus"])}
            tol = 1e-10
            rc = rc_for(sd, "v%d" % v, method=m, lib=lib, linsolve=ls, ipadd=ip, tol=tol, mva=net["mva"])
            tag = "var%d[%s%s%s %s/%s/ls%d/ip%d%s]" % (v, style, "+shuffle" if shuffle else "", "+rebase" if rebase else "",
                                                        m, lib, ls, ip, "+via-" + via if via else "")
            if via in ("m", "raw") and not fm.can_carry(p, via):
                via = None
            # NK has its own stopping rule (SciPy f_tol); dishonest NR is linearly convergent: the
            # "converges from a flat start" clause is decided on full NR, the others are counted.
            solve_presentation(tag, p, rc, tol if m != "NK" else 6e-6, busmap, method=m, check_conv=(m == "NR"), via=via)
            if via == "raw" and runs and runs[-1][0] == tag:
                runs[-1] = (tag, runs[-1][1], 1e-6, "raw-text")      # the text carries 6 decimals for set-points: own tolerance class

        # --- agreement between presentations and with the reference solver
        # The reference for voltages models ANDES' documented +1e-8 on r and x, so that agreement
        # can be demanded to solver precision; the power-balance oracle above stays purely physical.
        d_eps = gn.to_oracle(net)
        d_eps["line_eps"] = opf.LINE_EPS
        res.count("presentations_compared", len(runs))
        first_by_method = {}
        for tag, vb, tol, method in runs:
            # polish ANDES' own answer with the independent solver: the nearest exact root
            V0 = np.array([vb[b["idx"]] for b in net["bus"]])
            pol = opf.solve(d_eps, tol=1e-12, max_iter=15, start=V0)
            lim = 1e-8 if tol <= 1e-9 else 100 * tol
            if not pol["converged"]:
                # the balance (the property's criterion) has been decided above; the distance to the exact root is a sharper
                # auxiliary measure that needs the polish: at an ill-conditioned (low-voltage) root it may not be available
                res.count("polish_not_converged")
                continue
            dv = float(np.max(np.abs(pol["V"] - V0)))
            if tol <= 1e-9:
                res.maxobs("max_dv_vs_exact_root", dv)
            if dv > lim:
                res.violate("voltages_off_root", "%s: reported voltages are %.3e away from the exact root (limit %.1e)" % (tag, dv, lim),
                            tag=tag, dv=dv)
            # presentations solved with the same Newton variant follow the same iterates: same root
            if tol <= 1e-9:
                if method not in first_by_method:
                    first_by_method[method] = (tag, V0)
                else:
                    t0, Vf = first_by_method[method]
                    dp = float(np.max(np.abs(Vf - V0)))
                    res.maxobs("max_dv_between_presentations", dp)
                    if dp > 1e-8:
                        res.violate("presentation_disagrees", "%s vs %s: max |dV| = %.3e (limit 1e-8)" % (tag, t0, dp), dv=dp)
            dd = float(np.max(np.abs(V0 - vdes_net)))
            if dd > 1e-3:
                res.count("runs_at_other_root")
    res.nontrivial = res.obs.get("buses_balanced", 0) >= 3
    res.sample = dict(nbus=len(net["bus"]), nline=len(net["line"]), mva=net["mva"], presentations=[r[0] for r in runs][:4],
                      max_balance_ratio=res.obs.get("max_balance_ratio"))


def run_stock(spec, res):
    from vf import au
    ss = au.load(spec["path"])
    res.sig = "stock:" + spec["path"]
    ok, err = run_pf(ss)
    res.count("pf_runs")
    if not ok:
        res.violate("stock_no_convergence", "stock case %s: PFlow.run() returned False (%s)" % (spec["path"], err),
                    path=spec["path"])
        return
    res.count("pf_converged")
    info = check_solution(res, ss, spec["path"], float(ss.PFlow.config.tol))
    res.nontrivial = info is not None and len(info["live"]) >= 3
    res.sample = dict(path=spec["path"], nbus=ss.Bus.n, niter=int(ss.PFlow.niter),
                      max_balance_ratio=res.obs.get("max_balance_ratio"))


SEQ_STOCK = ["ieee14/ieee14.raw", "ieee14/ieee14.json", "ieee39/ieee39.xlsx", "kundur/kundur_full.xlsx", "wscc9/wscc9.raw",
             "matpower/case14.m", "npcc/npcc.xlsx"]


def run_seq(spec, res):
    """Repeated PFlow.run() on one System while devices are switched: every reported convergence must satisfy the
    balance of the data *as it is at that moment* (a bus isolated earlier and reconnected since is a non-islanded bus)."""
    from vf import au
    from vf.gen import network as gn
    from vf.oracle import powerflow as opf
    seed = spec.get("seed", 0)
    rng = rng_for(seed, PROPERTY, 7001, spec["index"])
    with au.Scratch("c01s") as sd:
        flat = bool(rng.integers(0, 2))
        if rng.random() < 0.5:
            net = None
            for attempt in range(8):
                cand = gn.gen_network(rng, hard=False)
                ref = opf.solve(gn.to_oracle(cand), tol=1e-11, max_iter=10)
                if ref["converged"]:
                    net = cand
                    break
            if net is None:
                res.inconc("no well-posed network in 8 draws")
                return
            rc = au.write_rc(os.path.join(sd, "s.rc"), {"System": {"mva": net["mva"]}, "PFlow": {"report": 0}})
            ss = gn.build_system(net, config_path=rc)
            base = "gen"
        else:
            base = SEQ_STOCK[int(rng.integers(0, len(SEQ_STOCK)))]
            ss = au.load(base)
        if flat:
            ss.Bus.config.flat_start = 1
        res.sig = "seq:%d:%d" % (seed, spec["index"])
        L = ss.Line
        nline = L.n
        bus_of = {b: i for i, b in enumerate(ss.Bus.idx.v)}
        slack_buses = [bus_of[b] for b, u in zip(ss.Slack.bus.v, ss.Slack.u.v) if u]
        u_now = np.array(L.u.v, dtype=float).copy()

        def acceptable(u):
            # in-service branches keep every non-isolated bus in one component that holds a slack bus
            uf = au.UnionFind(ss.Bus.n)
            deg = np.zeros(ss.Bus.n)
            for k in range(nline):
                if u[k]:
                    a, b = bus_of[L.bus1.v[k]], bus_of[L.bus2.v[k]]
                    uf.union(a, b)
                    deg[a] += 1
                    deg[b] += 1
            roots = set(uf.find(i) for i in range(ss.Bus.n) if deg[i] > 0)
            return len(roots) == 1 and any(deg[s] > 0 and uf.find(s) in roots for s in slack_buses)

        tol = float(ss.PFlow.config.tol)
        nstep = int(rng.integers(3, 7))
        switched = []
        for step in range(nstep):
            ops = []
            kind = ["isolate_bus", "restore", "line_out", "line_in", "load", "none"][int(rng.integers(0, 6))] if step else "none"
            if step == 1 and rng.random() < 0.5:
                kind = "isolate_bus"
            if step == 2 and switched and rng.random() < 0.6:
                kind = "restore"
            u_try = u_now.copy()
            if kind == "isolate_bus":
                b = int(rng.integers(0, ss.Bus.n))
                ks = [k for k in range(nline) if u_now[k] and b in (bus_of[L.bus1.v[k]], bus_of[L.bus2.v[k]])]
                for k in ks:
                    u_try[k] = 0
                ops = [(k, 0) for k in ks]
            elif kind == "restore":
                ops = [(k, 1) for k in switched]
                for k in switched:
                    u_try[k] = 1
            elif kind == "line_out":
                k = int(rng.integers(0, nline))
                if u_now[k]:
                    u_try[k] = 0
                    ops = [(k, 0)]
            elif kind == "line_in" and switched:
                k = switched[int(rng.integers(0, len(switched)))]
                u_try[k] = 1
                ops = [(k, 1)]
            if ops and not acceptable(u_try):
                ops = []
                res.count("seq_ops_skipped_would_split_network")
            for k, v in ops:
                L.alter("u", L.idx.v[k], v)
                u_now[k] = v
                if v == 0:
                    switched.append(k)
                elif k in switched:
                    switched.remove(k)
            if kind == "load" and ss.PQ.n:
                j = int(rng.integers(0, ss.PQ.n))
                ss.PQ.alter("p0", ss.PQ.idx.v[j], float(ss.PQ.p0.vin[j]) * float(rng.uniform(0.8, 1.1)))
                res.count("seq_load_changes")
            res.count("seq_steps")
            res.count("seq_branch_switchings", len(ops))
            ok, err = run_pf(ss)
            res.count("pf_runs")
            if not ok:
                res.count("seq_nonconverged")
                continue
            res.count("pf_converged")
            tag = "seq %s step %d (%s; %d branches out)" % (base, step, kind, int(nline - u_now.sum()))
            if check_solution(res, ss, tag, tol) is not None and any(v == 1 for _, v in ops):
                res.count("seq_balance_after_reconnection")
    res.nontrivial = res.obs.get("buses_balanced", 0) >= 3
    res.sample = dict(base=base, steps=res.obs.get("seq_steps"), switchings=res.obs.get("seq_branch_switchings"))


def run_case(spec):
    res = Result(spec)
    if spec["kind"] == "gen":
        run_gen(spec, res)
    elif spec["kind"] == "seq":
        run_seq(spec, res)
    else:
        run_stock(spec, res)
    return res


def finding_key(w, spec):
    return w.get("mech")
