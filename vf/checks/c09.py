"""
C09 - Limiters and other discrete components enforce their documented semantics.

(a) standalone: the real classes of andes.core.discrete are constructed on NumParam/Algeb/State
    carriers (as the repository's tests do) and driven by random arrays / time-stamp histories
    (repeats, rewinds); icontract post-conditions on their check_var/check_eq compare every call
    with the executable reference models in vf.oracle.discrete.
(b) in simulation: the same contracts stay installed on the classes while live simulations with
    active limiters run; at every accepted step every anti-windup limited state lies inside
    [lower, upper] (+ tolerance) and pegged states hold a zero stored derivative.
"""
import numpy as np

from vf.util import Result, rng_for

PROPERTY = "C09"
LEVEL = "exploration"
TIMEOUT = 600
RULE = ("standalone: random arrays (values on, next to and far from the limits; equal limits; sign-flipped limits; "
        "no_lower/no_upper; disabled) through Limiter/HardLimiter/LessThan/IsEqual/AntiWindup/RateLimiter/AntiWindupRate/"
        "SortedLimiter/Selector/Switcher/DeadBand/DeadBandRT, and random time histories with repeated and rewound stamps "
        "through Delay(step,time)/Average/Derivative/Sampling; in-simulation: stock cases with limiters driven to their "
        "limits (faults, tightened limits), contracts evaluated at every call. Non-trivial: >= 20 contract evaluations with at "
        "least one active flag; distinct = (class, history seed | case).")
ASSUMPTIONS = ["reference models are written from the class docstrings (vf/oracle/discrete.py)",
               "history components: a later time appends, the same time replaces the newest value, an earlier time "
               "(rewind) replaces the newest value and stamp; rewinds to exactly the previous stamp are not generated"]
REQUIRED_OBS = {"contract_evaluations": 2000, "limiter_active_calls": 200, "sim_steps_checked": 200, "pegged_states_seen": 10}

STANDALONE = ["limiter", "lessthan", "antiwindup", "ratelimiter", "sortedlimiter", "selector", "switcher", "deadband",
              "deadbandrt", "delay_step", "delay_time", "average", "derivative", "sampling", "antiwinduprate"]
SIM_CASES = ["kundur/kundur_aw.xlsx", "ieee14/ieee14_fault.xlsx", "kundur/kundur_full.xlsx", "ieee14/ieee14_esst3a.xlsx",
             "ieee14/ieee14_wt3.xlsx", "kundur/kundur_sexs.xlsx", "ieee14/ieee14_pvd1.xlsx", "ieee39/ieee39_full.xlsx"]


class ContractBroken(Exception):
    pass


def cases(tier, seed):
    out = []
    reps = 3 if tier == "quick" else 40
    for k in STANDALONE:
        for r in range(reps):
            out.append(dict(id="%s:%d" % (k, r), kind="standalone", cls=k, index=r))
    sims = SIM_CASES[:5] if tier == "quick" else SIM_CASES
    reps = 2 if tier == "quick" else 8
    for c in sims:
        for r in range(reps):
            out.append(dict(id="sim:%s:%d" % (c, r), kind="sim", case=c, index=r))
    return out


def worker_init():
    from vf import au
    au.quiet()


# ------------------------------------------------------------------------------------------------
# carriers

def carriers(n):
    from andes.core.param import NumParam
    from andes.core.var import Algeb, State
    u = Algeb()
    u.v = np.zeros(n)
    u.e = np.zeros(n)
    lo = NumParam()
    lo.v = np.zeros(n)
    up = NumParam()
    up.v = np.ones(n)
    return u, lo, up


def hostile_values(rng, lower, upper, n):
    """Inputs on, next to and away from the limits."""
    c = rng.integers(0, 8, n)
    eps = np.spacing(np.abs(upper) + 1.0)
    u = np.where(c == 0, lower, np.where(c == 1, upper, np.where(c == 2, lower - eps, np.where(c == 3, upper + eps,
        np.where(c == 4, lower + eps, np.where(c == 5, upper - eps, rng.uniform(-3, 3, n)))))))
    return u.astype(float)


def limits(rng, n, allow_equal=True):
    lo = rng.uniform(-2, 1, n)
    up = lo + rng.uniform(0.0, 2.0, n)
    if allow_equal:
        eq = rng.random(n) < 0.15
        up = np.where(eq, lo, up)
    return lo, up


# ------------------------------------------------------------------------------------------------
# standalone drivers.  Each evaluates an icontract post-condition on the REAL method.

def contract(res, cls, method, cond, snapshot=None):
    """Install an icontract post-condition on cls.method; returns a restore function."""
    import icontract
    orig = getattr(cls, method)
    state = dict(n=0)

    def post(self, *a, **k):        # named function; icontract resolves arguments by name
        return True
    # icontract resolves condition arguments by name from the wrapped function's signature; the
    # methods here take (*args, **kwargs), so the contract is attached through a thin named shim.

    def shim(self, *args, **kwargs):
        old = snapshot(self) if snapshot else None
        r = orig(self, *args, **kwargs)
        state["n"] += 1
        res.count("contract_evaluations")
        msg = cond(self, old, args, kwargs)
        if msg:
            raise ContractBroken(msg)
        return r
    setattr(cls, method, shim)
    return lambda: setattr(cls, method, orig)


def sa_limiter(rng, res):
    from andes.core.discrete import Limiter, HardLimiter, DeadBand
    from vf.oracle import discrete as od
    for trial in range(60):
        n = int(rng.integers(1, 12))
        u, lo, up = carriers(n)
        lo.v, up.v = limits(rng, n)
        kw = dict(equal=bool(rng.integers(0, 2)), no_lower=bool(rng.random() < 0.2), no_upper=bool(rng.random() < 0.2),
                  sign_lower=int(rng.choice([1, 1, -1])), sign_upper=int(rng.choice([1, 1, -1])), enable=bool(rng.random() < 0.9))
        cls = [Limiter, HardLimiter][int(rng.integers(0, 2))]
        if kw["sign_lower"] == -1 or kw["sign_upper"] == -1:
            # sign-flipped limits: data are given as positive magnitudes
            lo.v, up.v = np.abs(lo.v) + 0.1, np.abs(up.v) + 0.1
        lim = cls(u, lo, up, allow_adjust=False, **kw)
        lim.list2array(n)
        for call in range(6):
            eff_lo = -lo.v if kw["sign_lower"] == -1 else lo.v
            eff_up = -up.v if kw["sign_upper"] == -1 else up.v
            u.v = hostile_values(rng, np.minimum(eff_lo, eff_up), np.maximum(eff_lo, eff_up), n)
            before = (lim.zi.copy(), lim.zl.copy(), lim.zu.copy())
            lim.check_var()
            res.count("contract_evaluations")
            if not kw["enable"]:
                if not all(np.array_equal(a, b) for a, b in zip(before, (lim.zi, lim.zl, lim.zu))):
                    res.violate("disabled_limiter_changed_flags", "%s disabled but flags changed" % cls.__name__)
                continue
            zi, zl, zu = od.limiter_flags(u.v, lo.v, up.v, equal=kw["equal"], no_lower=kw["no_lower"], no_upper=kw["no_upper"],
                                          sign_lower=kw["sign_lower"], sign_upper=kw["sign_upper"])
            if np.any(zl + zu > 0):
                res.count("limiter_active_calls")
            if not (np.array_equal(lim.zi, zi) and (kw["no_lower"] or np.array_equal(lim.zl, zl)) and (kw["no_upper"] or np.array_equal(lim.zu, zu))):
                res.violate("limiter_flags", "%s(%s): flags zi/zl/zu=%s/%s/%s, comparison of the input with the limits gives %s/%s/%s; u=%s lower=%s upper=%s" % (
                    cls.__name__, kw, lim.zi, lim.zl, lim.zu, zi, zl, zu, u.v, lo.v, up.v), kw=kw)
            s = lim.zi + (0 if kw["no_lower"] else lim.zl) + (0 if kw["no_upper"] else lim.zu)
            bad = np.where(s != 1)[0]
            for j in bad:
                degenerate = (eff_lo[j] >= eff_up[j])
                res.violate("limiter_degenerate_range" if degenerate else "limiter_not_one_hot",
                            "%s: zi+zl+zu = %g for u=%r lower=%r upper=%r (equal=%s)" % (cls.__name__, s[j], u.v[j], eff_lo[j], eff_up[j], kw["equal"]),
                            lower=float(eff_lo[j]), upper=float(eff_up[j]), u=float(u.v[j]))
                break


def sa_lessthan(rng, res):
    from andes.core.discrete import LessThan, IsEqual
    for trial in range(60):
        n = int(rng.integers(1, 10))
        u, b, _ = carriers(n)
        b.v = rng.uniform(-1, 1, n)
        eq = bool(rng.integers(0, 2))
        cache = bool(rng.random() < 0.3)
        lt = LessThan(u, b, equal=eq, cache=cache)
        lt.list2array(n)
        ie = IsEqual(u, b)
        ie.list2array(n)
        first = None
        for call in range(5):
            u.v = hostile_values(rng, b.v, b.v, n)
            lt.check_var()
            ie.check_var()
            res.count("contract_evaluations", 2)
            want = (u.v <= b.v) if eq else (u.v < b.v)
            if cache:
                if first is None:
                    first = want.copy()
                want = first
            if np.any(want):
                res.count("limiter_active_calls")
            if not (np.array_equal(lt.z1, want.astype(float)) and np.array_equal(lt.z0, 1.0 - want)):
                res.violate("lessthan_flags", "LessThan(equal=%s, cache=%s): z1=%s expected %s (u=%s bound=%s)" % (eq, cache, lt.z1, want, u.v, b.v))
            if not np.array_equal(ie.z1, (u.v == b.v).astype(float)):
                res.violate("isequal_flags", "IsEqual: z1=%s for u=%s bound=%s" % (ie.z1, u.v, b.v))


def sa_antiwindup(rng, res, rate=False):
    from andes.core.discrete import AntiWindup, AntiWindupRate
    from andes.core.var import State
    from vf.oracle import discrete as od
    for trial in range(50):
        n = int(rng.integers(1, 10))
        _, lo, up = carriers(n)
        lo.v, up.v = limits(rng, n, allow_equal=(rng.random() < 0.3))
        x = State()
        x.v = np.zeros(n)
        x.e = np.zeros(n)
        x.a = np.arange(100, 100 + n)
        if rate:
            from andes.core.param import NumParam
            rl, ru = NumParam(), NumParam()
            rl.v = -rng.uniform(0.1, 1.0, n)
            ru.v = rng.uniform(0.1, 1.0, n)
            aw = AntiWindupRate(x, lo, up, rate_lower=rl, rate_upper=ru, allow_adjust=False)
        else:
            aw = AntiWindup(x, lo, up, allow_adjust=False)
        aw.list2array(n)
        for call in range(8):
            x.v = hostile_values(rng, lo.v, up.v, n)
            x.e = np.where(rng.random(n) < 0.3, 0.0, rng.uniform(-2, 2, n))
            niter = int(rng.integers(0, 8))
            v0, e0 = x.v.copy(), x.e.copy()
            zl_prev, zu_prev = aw.zl.copy(), aw.zu.copy()
            aw.check_eq(niter=niter)
            res.count("contract_evaluations")
            e_in = e0.copy()
            if rate:
                e_in = np.clip(e0, rl.v, ru.v)
            zi, zl, zu = od.antiwindup(v0, e_in, lo.v, up.v, zl_prev, zu_prev, niter)
            if not (np.array_equal(aw.zi, zi) and np.array_equal(aw.zl, zl) and np.array_equal(aw.zu, zu)):
                res.violate("antiwindup_flags", "AntiWindup%s niter=%d: zi/zl/zu=%s/%s/%s expected %s/%s/%s (x=%s xdot=%s lower=%s upper=%s)" % (
                    "Rate" if rate else "", niter, aw.zi, aw.zl, aw.zu, zi, zl, zu, v0, e_in, lo.v, up.v))
                continue
            peg = np.where(zi == 0)[0]
            if len(peg):
                res.count("limiter_active_calls")
                res.count("pegged_states_seen", len(peg))
            both = np.where((zl == 1) & (zu == 1))[0]
            for j in peg:
                if j in both:
                    if lo.v[j] >= up.v[j]:
                        res.violate("limiter_degenerate_range", "AntiWindup: zl=zu=1 with lower=%r upper=%r x=%r xdot=%r" % (lo.v[j], up.v[j], v0[j], e_in[j]),
                                    lower=float(lo.v[j]), upper=float(up.v[j]), u=float(v0[j]))
                    continue
                want_v = up.v[j] if zu[j] else lo.v[j]
                if x.v[j] != want_v or x.e[j] != 0:
                    res.violate("antiwindup_not_pegged", "AntiWindup: flagged state has v=%r (limit %r), e=%r" % (x.v[j], want_v, x.e[j]))
            free = np.where(zi == 1)[0]
            if not (np.array_equal(x.v[free], v0[free]) and np.array_equal(x.e[free], e_in[free])):
                res.violate("antiwindup_changed_free_state", "AntiWindup changed a state that is not at a limit")
            addr = sorted(int(a) for item in aw.x_set for a in np.atleast_1d(item[0]))
            if addr != sorted(int(x.a[j]) for j in peg):
                res.violate("antiwindup_x_set", "x_set lists %s, pegged addresses are %s" % (addr, [int(x.a[j]) for j in peg]))


def sa_ratelimiter(rng, res):
    from andes.core.discrete import RateLimiter
    from andes.core.param import NumParam
    from andes.core.var import State
    for trial in range(50):
        n = int(rng.integers(1, 10))
        x = State()
        x.v = np.zeros(n)
        x.e = np.zeros(n)
        rl, ru = NumParam(), NumParam()
        rl.v = -rng.uniform(0.1, 1.0, n)
        ru.v = rng.uniform(0.1, 1.0, n)
        r = RateLimiter(x, rl, ru)
        r.list2array(n)
        for call in range(5):
            e0 = hostile_values(rng, rl.v, ru.v, n)
            x.e = e0.copy()
            r.check_eq()
            res.count("contract_evaluations")
            want = np.clip(e0, rl.v, ru.v)
            if np.any(want != e0):
                res.count("limiter_active_calls")
            if not np.array_equal(x.e, want):
                res.violate("ratelimiter", "RateLimiter: derivative %s limited to %s, expected %s (limits %s..%s)" % (e0, x.e, want, rl.v, ru.v))


def sa_sortedlimiter(rng, res):
    from andes.core.discrete import SortedLimiter
    for trial in range(40):
        n = int(rng.integers(2, 20))
        u, lo, up = carriers(n)
        lo.v, up.v = limits(rng, n, allow_equal=False)
        up.v = up.v + 0.05
        nsel = int(rng.choice([1, 2, 3, 5]))
        sl = SortedLimiter(u, lo, up, n_select=nsel, allow_adjust=False)
        sl.list2array(n)
        ql0, qu0 = np.zeros(n), np.zeros(n)
        for call in range(6):
            u.v = rng.uniform(-3, 3, n)
            sl.check_var(niter=10, err=1e-6)
            res.count("contract_evaluations")
            viol_l = u.v <= lo.v
            viol_u = u.v >= up.v
            new_l = (sl.zl == 1) & (ql0 == 0)
            new_u = (sl.zu == 1) & (qu0 == 0)
            if np.any(sl.zl + sl.zu > 0):
                res.count("limiter_active_calls")
            if np.any(new_l & ~viol_l) or np.any(new_u & ~viol_u):
                res.violate("sortedlimiter_flags_nonviolating", "SortedLimiter newly flagged an input that does not violate its limit")
            if new_l.sum() > nsel or new_u.sum() > nsel:
                # the documented bound is n_select per side.  Mechanism seen on the pinned tree: the indices ranked
                # for the *other* side are allowed through as well ("reset_out" is the union of both rankings).
                rank_l = set(np.argsort(u.v - lo.v)[:nsel].tolist())
                rank_u = set(np.argsort(up.v - u.v)[:nsel].tolist())
                cross = (set(np.where(new_l)[0].tolist()) - rank_l) <= rank_u and (set(np.where(new_u)[0].tolist()) - rank_u) <= rank_l
                res.violate("sortedlimiter_cross_selection" if cross and new_l.sum() <= 2 * nsel and new_u.sum() <= 2 * nsel
                            else "sortedlimiter_too_many",
                            "SortedLimiter(n_select=%d, n=%d) newly flagged %d lower / %d upper violations in one call; documented: at most "
                            "n_select per side" % (nsel, n, new_l.sum(), new_u.sum()), n_select=nsel, n=n)
            if np.any((ql0 == 1) & (sl.zl == 0)) or np.any((qu0 == 1) & (sl.zu == 0)):
                res.violate("sortedlimiter_not_sticky", "SortedLimiter released a latched flag")
            if not np.array_equal(sl.zi, 1 - np.logical_or(sl.zl, sl.zu)):
                res.violate("sortedlimiter_zi", "SortedLimiter zi != not(zl or zu)")
            ql0, qu0 = sl.zl.copy(), sl.zu.copy()


def sa_selector(rng, res):
    from andes.core.discrete import Selector
    for trial in range(40):
        n = int(rng.integers(1, 10))
        a, b, _ = carriers(n)
        fun = [np.maximum.reduce, np.minimum.reduce][int(rng.integers(0, 2))]
        s = Selector(a, b, fun=fun)
        s.list2array(n)
        for call in range(4):
            a.v[:] = rng.uniform(-1, 1, n)     # Selector binds the arrays once: write in place
            b.v[:] = rng.uniform(-1, 1, n)
            s.check_var()
            res.count("contract_evaluations")
            res.count("limiter_active_calls")
            want0 = (a.v == fun([a.v, b.v])).astype(float)
            want1 = (b.v == fun([a.v, b.v])).astype(float)
            if not (np.array_equal(s.s0, want0) and np.array_equal(s.s1, want1)):
                res.violate("selector_flags", "Selector flags %s/%s expected %s/%s" % (s.s0, s.s1, want0, want1))
            if np.any(s.s0 * a.v + s.s1 * b.v != fun([a.v, b.v])):
                res.violate("selector_output", "selected value differs from fun(inputs) without ties")


def sa_switcher(rng, res):
    from andes.core.discrete import Switcher
    from andes.core.param import NumParam
    for trial in range(40):
        n = int(rng.integers(1, 10))
        p = NumParam()
        opts = list(range(int(rng.integers(2, 7))))
        p.v = rng.choice(opts, n).astype(float)
        sw = Switcher(u=p, options=opts)
        sw.list2array(n)
        sw.check_var()
        res.count("contract_evaluations")
        res.count("limiter_active_calls")
        F = np.array([getattr(sw, "s%d" % i) for i in range(len(opts))])
        if not np.array_equal(F.sum(axis=0), np.ones(n)):
            res.violate("switcher_not_one_hot", "Switcher flags are not one-hot: %s for %s" % (F.tolist(), p.v))
        for i, o in enumerate(opts):
            if not np.array_equal(F[i], (p.v == o).astype(float)):
                res.violate("switcher_flags", "Switcher flag s%d=%s for input %s" % (i, F[i], p.v))
        # invalid option must be rejected
        p2 = NumParam()
        p2.v = np.array([float(len(opts) + 3)])
        sw2 = Switcher(u=p2, options=opts)
        sw2.owner = type("Owner", (), {"class_name": "Harness"})()
        p2.name = "p2"
        try:
            sw2.list2array(1)
            sw2.check_var()
            res.violate("switcher_accepts_invalid", "Switcher accepted option %r not in %s" % (p2.v[0], opts))
        except ValueError:
            res.count("invalid_options_rejected")


def sa_deadband(rng, res, rt=False):
    from andes.core.discrete import DeadBand, DeadBandRT
    from andes.core.param import NumParam
    from vf.oracle import discrete as od
    for trial in range(40):
        n = int(rng.integers(1, 10))
        u, lo, up = carriers(n)
        lo.v, up.v = limits(rng, n, allow_equal=False)
        up.v += 0.05
        c = NumParam()
        c.v = 0.5 * (lo.v + up.v)
        db = (DeadBandRT if rt else DeadBand)(u, c, lo, up)
        db.list2array(n)
        ref = od.DeadBandRTRef(n)
        pos = rng.uniform(-3, 3, n)
        for call in range(12):
            # a random walk that enters and leaves the band from both sides
            pos = pos + rng.uniform(-1.5, 1.5, n)
            pos = np.clip(pos, lo.v - 2, up.v + 2)
            u.v = pos.copy()
            db.check_var()
            res.count("contract_evaluations")
            zi, zl, zu, zur, zlr = ref.step(u.v, lo.v, up.v)
            if np.any(zi == 1):
                res.count("limiter_active_calls")
            if not (np.array_equal(db.zi, zi) and np.array_equal(db.zl, zl) and np.array_equal(db.zu, zu)):
                res.violate("deadband_flags", "DeadBand flags %s/%s/%s expected %s/%s/%s" % (db.zi, db.zl, db.zu, zi, zl, zu))
            if rt and not (np.array_equal(db.zur, zur) and np.array_equal(db.zlr, zlr)):
                res.violate("deadbandrt_return_flags", "DeadBandRT call %d: zur/zlr=%s/%s, the documented rule gives %s/%s (u=%s band=[%s, %s])" % (
                    call, db.zur, db.zlr, zur, zlr, u.v, lo.v, up.v))
                break


def time_history(rng, n_calls):
    """Time stamps as a solver produces them: t=0 first (possibly repeated: Newton iterations), then
    increasing, with repeats (iterations) and rewinds (rejected steps) to a time strictly after the
    last accepted one."""
    ts = [0.0] * int(rng.integers(1, 4))
    t_acc = 0.0
    t = 0.0
    while len(ts) < n_calls:
        h = float(rng.choice([1 / 30, 0.01, 0.1, 1e-4]))
        t = t_acc + h
        for _ in range(int(rng.integers(1, 4))):
            ts.append(t)
        if rng.random() < 0.2:     # rejected: retry with a smaller step
            t = t_acc + h * 0.5
            for _ in range(int(rng.integers(1, 3))):
                ts.append(t)
        t_acc = t
    return ts[:n_calls]


def sa_history(rng, res, which):
    from andes.core.common import DummyValue
    from andes.core.discrete import Delay, Average, Derivative
    from vf.oracle import discrete as od
    for trial in range(25):
        n = int(rng.integers(1, 6))
        data = DummyValue(0)
        data.v = np.zeros(n)
        if which == "delay_step":
            d = int(rng.integers(0, 5))
            real, ref = Delay(u=data, mode="step", delay=d), od.DelayStepRef(d)
        elif which == "delay_time":
            d = float(rng.choice([0.05, 0.2, 1.0]))
            real, ref = Delay(u=data, mode="time", delay=d), od.DelayTimeRef(d)
        elif which == "average":
            d = int(rng.integers(1, 5))
            real, ref = Average(u=data, mode="step", delay=d), od.AverageStepRef(d)
        else:
            d = 1
            real, ref = Derivative(u=data), od.DerivativeRef()
        real.list2array(n)
        ts = time_history(rng, int(rng.integers(5, 40)))
        for k, t in enumerate(ts):
            data.v = rng.uniform(-1, 1, n) if rng.random() < 0.9 else data.v
            real.check_var(t)
            want = ref.step(t, data.v)
            res.count("contract_evaluations")
            res.count("limiter_active_calls")
            if ref.h.rewound:
                res.count("rewinds_seen")
            if want is None:
                res.count("undefined_by_documentation")
                continue
            if not np.allclose(real.v, want, rtol=1e-12, atol=1e-14):
                revisited = any(ts[i] <= ts[i - 1] and ts[i - 1] > 0 for i in range(1, k + 1))
                res.violate("delay_time_revisited_stamp" if (which == "delay_time" and revisited) else which + "_output", "%s(delay=%s) call %d at t=%r: output %s, history prescribes %s (stamps so far %s)" % (
                    which, d, k, t, real.v, want, ts[max(0, k - 6):k + 1]), which=which)
                break


def sa_sampling(rng, res):
    from andes.core.common import DummyValue
    from andes.core.discrete import Sampling
    for trial in range(25):
        n = int(rng.integers(1, 5))
        data = DummyValue(0)
        data.v = np.zeros(n)
        interval = float(rng.choice([0.1, 0.5, 1.0]))
        s = Sampling(data, interval=interval)
        s.list2array(n)
        t = 0.0
        last_sample_t = 0.0
        held = None
        prev_out = None
        for k in range(int(rng.integers(5, 60))):
            t = 0.0 if k == 0 else t + float(rng.choice([1 / 30, 0.05, 0.2]))
            data.v = rng.uniform(-1, 1, n)
            s.check_var(t)
            res.count("contract_evaluations")
            res.count("limiter_active_calls")
            out = s.v.copy()
            if k == 0:
                held = data.v.copy()
                if not np.array_equal(out, held):
                    res.violate("sampling_initial", "Sampling output at t=0 is not the input")
            else:
                changed = not np.array_equal(out, prev_out)
                if changed:
                    # an output change is a sampling instant: it must carry the present input and come
                    # no sooner than one interval after the previous sample
                    if not np.array_equal(out, data.v):
                        res.violate("sampling_value", "Sampling output changed to %s which is not the present input %s" % (out, data.v))
                    if t - last_sample_t < interval - 1e-12:
                        res.violate("sampling_too_early", "Sampling(interval=%g) sampled at t=%g, %g after the previous sample" % (interval, t, t - last_sample_t))
                    last_sample_t = t
                    res.count("sampling_instants")
                else:
                    # held: not allowed to hold for longer than interval + the step just taken
                    if t - last_sample_t > 2 * interval + 0.2 + 1e-12:
                        res.violate("sampling_missed", "Sampling(interval=%g) still holds at t=%g a value sampled at t=%g" % (interval, t, last_sample_t))
            prev_out = out


def run_standalone(spec, res):
    rng = rng_for(spec.get("seed", 0), PROPERTY, STANDALONE.index(spec["cls"]), spec["index"])
    k = spec["cls"]
    if k == "limiter":
        sa_limiter(rng, res)
    elif k == "lessthan":
        sa_lessthan(rng, res)
    elif k == "antiwindup":
        sa_antiwindup(rng, res)
    elif k == "antiwinduprate":
        sa_antiwindup(rng, res, rate=True)
    elif k == "ratelimiter":
        sa_ratelimiter(rng, res)
    elif k == "sortedlimiter":
        sa_sortedlimiter(rng, res)
    elif k == "selector":
        sa_selector(rng, res)
    elif k == "switcher":
        sa_switcher(rng, res)
    elif k == "deadband":
        sa_deadband(rng, res)
    elif k == "deadbandrt":
        sa_deadband(rng, res, rt=True)
    elif k == "sampling":
        sa_sampling(rng, res)
    else:
        sa_history(rng, res, k)
    res.sig = "%s:%d:%d" % (k, spec.get("seed", 0), spec["index"])
    res.nontrivial = res.obs.get("contract_evaluations", 0) >= 20 and res.obs.get("limiter_active_calls", 0) >= 1
    res.sample = dict(cls=k, evaluations=res.obs.get("contract_evaluations", 0), active=res.obs.get("limiter_active_calls", 0))


# ------------------------------------------------------------------------------------------------
# in-simulation

def install_class_contracts(res):
    """icontract post-conditions on the real classes (evaluated at every call made by the simulation)."""
    import icontract
    from andes.core import discrete as D
    from vf.oracle import discrete as od
    restore = []

    # --- Limiter.check_var (also HardLimiter; not the subclasses that override it)
    def limiter_flags_agree(self):
        if type(self) not in (D.Limiter, D.HardLimiter) or not self.enable:
            return True
        res.count("contract_evaluations")
        zi, zl, zu = od.limiter_flags(self.u.v, self.lower.v, self.upper.v, equal=self.equal, no_lower=self.no_lower,
                                      no_upper=self.no_upper, sign_lower=int(self.sign_lower.v), sign_upper=int(self.sign_upper.v),
                                      defaults=(1.0, float(np.ravel(self.zl)[0]) if self.no_lower else 0.0,
                                                float(np.ravel(self.zu)[0]) if self.no_upper else 0.0))
        if np.any(zl + zu > 0):
            res.count("limiter_active_calls")
        ok = np.array_equal(self.zi, zi) and (self.no_lower or np.array_equal(self.zl, zl)) and (self.no_upper or np.array_equal(self.zu, zu))
        if not ok:
            res.violate("limiter_flags", "in simulation: %s.%s flags disagree with the comparison of input and limits" % (
                getattr(self.owner, "class_name", "?"), self.name))
        return True

    orig_lim = D.Limiter.check_var
    D.Limiter.check_var = icontract.ensure(limiter_flags_agree, error=ContractBroken)(orig_lim)
    restore.append(lambda: setattr(D.Limiter, "check_var", orig_lim))

    # --- AntiWindup.check_eq
    def aw_pegged_consistent(self):
        res.count("contract_evaluations")
        peg = np.where(self.zi == 0)[0]
        if len(peg):
            res.count("limiter_active_calls")
            up = -self.upper.v if self.sign_upper.v == -1 else self.upper.v
            lo = -self.lower.v if self.sign_lower.v == -1 else self.lower.v
            for j in peg:
                both = (not self.no_lower and not self.no_upper and self.zl[j] == 1 and self.zu[j] == 1)
                if both:
                    continue
                want = up[j] if (not self.no_upper and self.zu[j] == 1) else lo[j]
                if self.state.v[j] != want or self.state.e[j] != 0:
                    res.violate("antiwindup_not_pegged", "in simulation: %s.%s pegged state v=%r limit=%r e=%r" % (
                        getattr(self.owner, "class_name", "?"), self.name, self.state.v[j], want, self.state.e[j]))
        if not np.all(self.zi == 1.0 - np.logical_or(self.zl if not self.no_lower else 0, self.zu if not self.no_upper else 0)):
            res.violate("antiwindup_flags", "in simulation: zi != not(zl or zu) for %s" % self.name)
        return True

    orig_aw = D.AntiWindup.check_eq
    D.AntiWindup.check_eq = icontract.ensure(aw_pegged_consistent, error=ContractBroken)(orig_aw)
    restore.append(lambda: setattr(D.AntiWindup, "check_eq", orig_aw))
    return restore


def run_sim(spec, res):
    from vf import au
    from vf.monitor.tds_trace import StepTrace
    import os
    rng = rng_for(spec.get("seed", 0), PROPERTY, 99, spec["index"], abs(hash(spec["case"])) % 9973)
    restore = install_class_contracts(res)
    try:
        with au.Scratch("c09") as sd:
            rc = au.write_rc(os.path.join(sd, "a.rc"), {"TDS": dict(tf=3.0, no_tqdm=1, criteria=0), "PFlow": dict(report=0)})
            ss = au.load(spec["case"], setup=False, config_path=rc)
            # drive limiters: a fault near a generator and a load step
            bus = ss.Bus.idx.v[int(rng.integers(0, ss.Bus.n))]
            if spec["index"] % 2 == 1:
                ss.add("Fault", dict(bus=bus, tf=0.5, tc=0.5 + float(rng.choice([0.05, 0.1, 0.15])), xf=0.01))
            if ss.PQ.n:
                ss.add("Alter", dict(t=1.2, model="PQ", dev=ss.PQ.idx.v[int(rng.integers(0, ss.PQ.n))], src="Ppf", attr="v", method="*",
                                     amount=float(rng.uniform(1.1, 1.5))))
            ss.setup()
            # tighten exciter ceilings so that anti-windup limiters engage
            for mname in ("EXDC2", "ESST3A", "SEXS", "EXST1", "ESDC2A", "IEEEX1"):
                m = getattr(ss, mname, None)
                if m is not None and m.n and "VRMAX" in m.params and spec["index"] % 3 != 0:
                    m.VRMAX.v[:] = m.VRMAX.v * float(rng.uniform(0.3, 0.8))
            if not ss.PFlow.run():
                res.inconc("power flow failed")
                return
            tr = StepTrace(ss, rowsums=False)
            ok = ss.TDS.run()
            tol = float(ss.TDS.config.tol)
            # every anti-windup limited state within its range at every accepted step; pegged ones hold f == 0
            aws = []
            for item in ss.antiwindups:
                if item.owner.n == 0:
                    continue
                up = -item.upper.v if item.sign_upper.v == -1 else item.upper.v
                lo = -item.lower.v if item.sign_lower.v == -1 else item.lower.v
                aws.append((item, np.array(item.state.a, dtype=int), np.array(lo, dtype=float) * np.ones(item.owner.n),
                            np.array(up, dtype=float) * np.ones(item.owner.n)))
            for s in tr.accepted():
                res.count("sim_steps_checked")
                for item, addr, lo, up in aws:
                    xv = s["x"][addr]
                    delta = 4 * tol * (1 + np.maximum(np.abs(lo), np.abs(up)))
                    bad = np.zeros(len(addr), dtype=bool)
                    if not item.no_upper:
                        bad |= xv > up + delta
                    if not item.no_lower:
                        bad |= xv < lo - delta
                    # limits adjusted at initialisation are part of ANDES' documented behaviour: skip devices
                    # whose initial value was outside the data range
                    if np.any(bad):
                        j = int(np.where(bad)[0][0])
                        # mechanism predicate: the limiter engages only while the derivative points outward.  A state that crosses
                        # its limit inside one step and whose derivative at the END of the step already points back inside is
                        # left where the integration rule put it - outside the range
                        fj = float(s["f"][addr[j]])
                        inward = (xv[j] > up[j] and fj < 0) or (xv[j] < lo[j] and fj > 0)
                        res.violate("antiwindup_overshoot_derivative_inward" if inward else "antiwindup_range",
                                    "%s.%s state %s = %r outside [%r, %r] at t=%r (derivative there %r%s)" % (
                            item.owner.class_name, item.name, ss.dae.x_name[addr[j]], xv[j], lo[j], up[j], s["t"], fj,
                            ": pointing back inside" if inward else ""), t=s["t"])
                        break
                for a in s["pegged"]:
                    res.count("pegged_states_seen")
                    if s["f"][a] != 0:
                        res.violate("pegged_state_nonzero_derivative", "state %s pegged by anti-windup holds stored f=%r at t=%r" % (
                            ss.dae.x_name[a], s["f"][a], s["t"]))
                        break
            res.count("sim_runs")
            res.sig = "sim:%s:%d" % (spec["case"], spec["index"])
            res.nontrivial = res.obs.get("contract_evaluations", 0) >= 20
            res.sample = dict(case=spec["case"], completed=bool(ok), steps=res.obs.get("sim_steps_checked", 0),
                              pegged=res.obs.get("pegged_states_seen", 0), evaluations=res.obs.get("contract_evaluations", 0))
    finally:
        for r in restore:
            r()


def run_case(spec):
    res = Result(spec)
    if spec["kind"] == "standalone":
        run_standalone(spec, res)
    else:
        run_sim(spec, res)
    return res


def finding_key(w, spec):
    return w.get("mech")
