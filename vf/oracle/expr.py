"""
Independent evaluator of ANDES' declared equation strings.

The strings (``e_str``, ``v_str``, ``v_iter``, service ``v_str``) are Python-syntax expressions.
They are parsed with the standard ``ast`` module and evaluated by a small tree walker on numpy
arrays.  Nothing of SymPy's parser, automatic simplification, ``lambdify``, the NumPy code
printer or ANDES' ``select``/``Indicator`` source patching is shared.

Vocabulary (closed; measured on the pinned tree over 2746 expressions of 97 models):
numbers incl. ``1j``, names, ``pi``, ``+ - * / **`` (and ``^`` as power, SymPy's convention), unary
``+ -``, comparisons, ``&`` / ``|`` on conditions, and the calls
``Piecewise((expr, cond), ..., evaluate=...)``, ``Indicator``, ``Lt Le Gt Ge``, ``sin cos tan exp log
sqrt atan atan2 abs Abs re im conj arg radians rad safe_div``.
Anything else raises ``Unsupported`` (the expression is then *inconclusive*, never silently passed).
"""
import ast

import numpy as np


class Unsupported(Exception):
    pass


_FUNCS = {
    "sin": np.sin, "cos": np.cos, "tan": np.tan, "exp": np.exp, "log": np.log, "sqrt": np.sqrt,
    "atan": np.arctan, "asin": np.arcsin, "acos": np.arccos,
    "abs": np.abs, "Abs": np.abs, "re": np.real, "im": np.imag, "conj": np.conj, "arg": np.angle,
    "radians": np.radians, "rad": np.radians, "real": np.real, "imag": np.imag,
}


class Evaluator:
    """``Evaluator(values, subs)``: values maps names to numpy arrays / scalars, subs maps the names of
    substitution services to their own expression strings."""

    def __init__(self, values, subs=None, n=None):
        self.values = values
        self.subs = subs or {}
        self.n = n
        self._cache = {}
        self.names_used = set()

    def parse(self, s):
        s = " ".join(str(s).replace("\\\n", " ").split())
        if s not in self._cache:
            self._cache[s] = ast.parse(s, mode="eval").body
        return self._cache[s]

    def eval(self, s):
        with np.errstate(all="ignore"):
            return self._ev(self.parse(s))

    # ------------------------------------------------------------------
    def _ev(self, node):
        if isinstance(node, ast.Constant):
            if isinstance(node.value, (int, float, complex, bool)):
                return node.value
            raise Unsupported("constant %r" % (node.value,))
        if isinstance(node, ast.Name):
            name = node.id
            if name in self.subs:
                return self._ev(self.parse(self.subs[name]))
            if name in self.values:
                self.names_used.add(name)
                return self.values[name]
            if name == "pi":
                return np.pi
            if name in ("True", "true"):
                return True
            if name in ("False", "false"):
                return False
            raise Unsupported("unknown name %r" % name)
        if isinstance(node, ast.UnaryOp):
            v = self._ev(node.operand)
            if isinstance(node.op, ast.USub):
                return -v
            if isinstance(node.op, ast.UAdd):
                return +v
            if isinstance(node.op, (ast.Not, ast.Invert)):
                return np.logical_not(v)
            raise Unsupported("unary %s" % type(node.op).__name__)
        if isinstance(node, ast.BinOp):
            a, b = self._ev(node.left), self._ev(node.right)
            op = node.op
            if isinstance(op, ast.Add):
                return _num(a) + _num(b)
            if isinstance(op, ast.Sub):
                return _num(a) - _num(b)
            if isinstance(op, ast.Mult):
                return _num(a) * _num(b)
            if isinstance(op, ast.Div):
                return np.true_divide(_num(a), _num(b))
            if isinstance(op, (ast.Pow, ast.BitXor)):
                return _power(_num(a), _num(b))
            if isinstance(op, ast.BitAnd):
                return np.logical_and(a, b)
            if isinstance(op, ast.BitOr):
                return np.logical_or(a, b)
            raise Unsupported("binary %s" % type(op).__name__)
        if isinstance(node, ast.BoolOp):
            vals = [self._ev(v) for v in node.values]
            out = vals[0]
            for v in vals[1:]:
                out = np.logical_and(out, v) if isinstance(node.op, ast.And) else np.logical_or(out, v)
            return out
        if isinstance(node, ast.Compare):
            if len(node.ops) != 1:
                raise Unsupported("chained comparison")
            return _cmp(node.ops[0], self._ev(node.left), self._ev(node.comparators[0]))
        if isinstance(node, ast.Tuple):
            return tuple(self._ev(e) for e in node.elts)
        if isinstance(node, ast.Call):
            fn = node.func.id if isinstance(node.func, ast.Name) else None
            if fn is None:
                raise Unsupported("call of non-name")
            if fn == "Piecewise":
                return self._piecewise(node)
            args = [self._ev(a) for a in node.args]
            if fn == "Indicator":
                return np.where(args[0], 1.0, 0.0) if not np.isscalar(args[0]) else (1.0 if args[0] else 0.0)
            if fn in ("Lt", "Le", "Gt", "Ge", "Eq", "Ne"):
                opmap = {"Lt": ast.Lt(), "Le": ast.LtE(), "Gt": ast.Gt(), "Ge": ast.GtE(), "Eq": ast.Eq(), "Ne": ast.NotEq()}
                return _cmp(opmap[fn], args[0], args[1])
            if fn == "And":
                out = args[0]
                for v in args[1:]:
                    out = np.logical_and(out, v)
                return out
            if fn == "Or":
                out = args[0]
                for v in args[1:]:
                    out = np.logical_or(out, v)
                return out
            if fn == "atan2":
                return np.arctan2(_num(args[0]), _num(args[1]))
            if fn == "safe_div":
                a, b = np.asarray(_num(args[0]), dtype=float), np.asarray(_num(args[1]), dtype=float)
                a, b = np.broadcast_arrays(a, b)
                out = np.zeros(a.shape)
                nzm = b != 0
                out[nzm] = a[nzm] / b[nzm]
                return out
            if fn in ("maximum", "Max"):
                return np.maximum(_num(args[0]), _num(args[1]))
            if fn in ("minimum", "Min"):
                return np.minimum(_num(args[0]), _num(args[1]))
            if fn in _FUNCS:
                if fn == "sqrt":
                    a = _num(args[0])
                    # principal square root; negative reals give nan in the generated real code as well
                    return np.sqrt(a)
                return _FUNCS[fn](_num(args[0]))
            raise Unsupported("function %r" % fn)
        raise Unsupported("node %s" % type(node).__name__)

    def _piecewise(self, node):
        pairs = []
        for a in node.args:
            if not isinstance(a, ast.Tuple) or len(a.elts) != 2:
                raise Unsupported("Piecewise argument")
            pairs.append((self._ev(a.elts[0]), self._ev(a.elts[1])))
        shape = ()
        for e, c in pairs:
            for z in (e, c):
                if not np.isscalar(z) and np.ndim(z) > 0:
                    shape = np.shape(z)
        out = np.full(shape, np.nan, dtype=complex if any(np.iscomplexobj(e) for e, _ in pairs) else float)
        done = np.zeros(shape, dtype=bool)
        for e, c in pairs:
            c = np.broadcast_to(np.asarray(c, dtype=bool), shape)
            e = np.broadcast_to(np.asarray(_num(e)), shape)
            take = np.logical_and(c, np.logical_not(done))
            out = np.where(take, e, out)
            done = np.logical_or(done, c)
        return out if shape else out[()]


def _num(v):
    """Conditions used arithmetically count as 0/1."""
    if isinstance(v, (bool, np.bool_)):
        return 1.0 if v else 0.0
    if isinstance(v, np.ndarray) and v.dtype == bool:
        return v.astype(float)
    return v


def _power(a, b):
    # real base with fractional exponent and negative base gives nan in real numpy arithmetic, like the generated code
    return np.power(a, b) if not (np.isscalar(a) and np.isscalar(b) and isinstance(a, (int,)) and isinstance(b, (int,)) and b < 0) else float(a) ** b


def _cmp(op, a, b):
    a, b = _num(a), _num(b)
    if isinstance(op, ast.Lt):
        return np.less(a, b)
    if isinstance(op, ast.LtE):
        return np.less_equal(a, b)
    if isinstance(op, ast.Gt):
        return np.greater(a, b)
    if isinstance(op, ast.GtE):
        return np.greater_equal(a, b)
    if isinstance(op, ast.Eq):
        return np.equal(a, b)
    if isinstance(op, ast.NotEq):
        return np.not_equal(a, b)
    raise Unsupported("comparison %s" % type(op).__name__)


def literal_breakpoints(s):
    """Numeric literals that appear in comparisons of an expression (used to sample both sides)."""
    out = []
    try:
        tree = ast.parse(" ".join(str(s).split()), mode="eval")
    except SyntaxError:
        return out
    for n in ast.walk(tree):
        if isinstance(n, ast.Compare):
            for c in [n.left] + list(n.comparators):
                if isinstance(c, ast.Constant) and isinstance(c.value, (int, float)):
                    out.append(float(c.value))
        if isinstance(n, ast.Call) and isinstance(n.func, ast.Name) and n.func.id in ("Lt", "Le", "Gt", "Ge"):
            for c in n.args:
                if isinstance(c, ast.Constant) and isinstance(c.value, (int, float)):
                    out.append(float(c.value))
    return out


def names_in(s, subs=None, _depth=0):
    """Free names of an expression (substitution services expanded)."""
    subs = subs or {}
    out = set()
    tree = ast.parse(" ".join(str(s).replace("\\\n", " ").split()), mode="eval")
    called = set()
    for n in ast.walk(tree):
        if isinstance(n, ast.Call) and isinstance(n.func, ast.Name):
            called.add(id(n.func))
    for n in ast.walk(tree):
        if isinstance(n, ast.Name) and id(n) not in called:
            if n.id in subs and _depth < 10:
                out |= names_in(subs[n.id], subs, _depth + 1)
            elif n.id != "pi":
                out.add(n.id)
    return out
