"""
Minimal independent readers of PSS/E RAW (rev 32/33) and MATPOWER case text.

Written from the published record layouts; nothing is shared with andes.io.  Each reader returns a
plain description in the structure of vf.gen.network (lists of device dicts on the SYSTEM base:
Sn = file base MVA, Vn1 = bus base kV), so that vf.oracle.powerflow builds its admittance matrix
from it.  Three-winding transformers are expanded to their star equivalent with an extra bus whose
idx is ('star', i, j, k); callers Kron-reduce it away before comparing.
"""
import re

import numpy as np


def _num(tok):
    tok = tok.strip().strip("'").strip()
    try:
        return int(tok)
    except ValueError:
        try:
            return float(tok)
        except ValueError:
            return tok


def _split(line):
    line = line.split("/")[0] if "'" not in line else _strip_comment(line)
    out = []
    for m in re.finditer(r"'[^']*'|[^,]+", line):
        out.append(_num(m.group(0)))
    return out


def _strip_comment(line):
    # a '/' outside quotes starts a comment
    inq = False
    for i, ch in enumerate(line):
        if ch == "'":
            inq = not inq
        elif ch == "/" and not inq:
            return line[:i]
    return line


def read_raw(path_or_text):
    text = open(path_or_text).read() if "\n" not in path_or_text else path_or_text
    lines = text.splitlines()
    head = _split(lines[0])
    Sb = float(head[1])
    sections = []
    cur = []
    for ln in lines[3:]:
        s = ln.strip()
        if s.startswith("Q") and len(s) <= 2:
            break
        if re.match(r"^0\s*(/|$)", s) or s == "0":
            sections.append(cur)
            cur = []
            continue
        cur.append(ln)
    sections.append(cur)
    while len(sections) < 18:
        sections.append([])
    bus_s, load_s, fsh_s, gen_s, br_s, tr_s = sections[:6]
    swsh_s = sections[16] if len(sections) > 16 else []
    net = dict(mva=Sb, bus=[], line=[], shunt=[], pq=[], pv=[], slack=[])
    kv = {}
    btype = {}
    vmag = {}
    vang = {}
    for ln in bus_s:
        d = _split(ln)
        i = d[0]
        kv[i] = float(d[2]) if float(d[2]) != 0 else 1.0
        btype[i] = int(d[3])
        vmag[i] = float(d[7])
        vang[i] = float(d[8])
        net["bus"].append(dict(idx=i, Vn=kv[i], type=btype[i]))
    for k, ln in enumerate(load_s):
        d = _split(ln)
        v0 = vmag[d[0]]
        p = (d[5] + d[7] * v0 + d[9] * v0 ** 2) / Sb
        q = (d[6] + d[8] * v0 - d[10] * v0 ** 2) / Sb
        net["pq"].append(dict(idx="L%d" % k, bus=d[0], p0=p, q0=q, u=int(d[2]), Vn=kv[d[0]]))
    for k, ln in enumerate(fsh_s):
        d = _split(ln)
        net["shunt"].append(dict(idx="FS%d" % k, bus=d[0], Sn=Sb, Vn=kv[d[0]], g=d[3] / Sb, b=d[4] / Sb, u=int(d[2])))
    for k, ln in enumerate(gen_s):
        d = _split(ln)
        e = dict(idx="G%d" % k, bus=d[0], p0=d[2] / Sb, q0=d[3] / Sb, v0=float(d[6]), u=int(d[14]), Sn=float(d[8]), Vn=kv[d[0]],
                 qmax=d[4] / Sb, qmin=d[5] / Sb, pmax=d[16] / Sb, pmin=d[17] / Sb)
        if btype[d[0]] == 3:
            e["a0"] = np.radians(vang[d[0]])
            net["slack"].append(e)
        else:
            net["pv"].append(e)
    for k, ln in enumerate(br_s):
        d = _split(ln)
        f, t = abs(int(d[0])), abs(int(d[1]))
        net["line"].append(dict(idx="BR%d" % k, bus1=f, bus2=t, Sn=Sb, Vn1=kv[f], Vn2=kv[t], r=float(d[3]), x=float(d[4]), b=float(d[5]), g=0.0,
                                g1=float(d[9]), b1=float(d[10]), g2=float(d[11]), b2=float(d[12]), tap=1.0, phi=0.0, u=int(d[13]), trans=0))
    # transformers: 4 lines (two-winding, K == 0) or 5 lines
    i = 0
    nt = 0
    while i < len(tr_s):
        l1 = _split(tr_s[i])
        K = l1[2]
        two = (K == 0)
        rec = [l1] + [_split(tr_s[i + j]) for j in range(1, 4 if two else 5)]
        i += 4 if two else 5
        nt += 1
        I, J = int(l1[0]), int(l1[1])
        CW, CZ, CM = int(l1[4]), int(l1[5]), int(l1[6])
        mag1, mag2 = float(l1[7]), float(l1[8])
        stat = int(l1[11])

        def winding_ratio(w, bus, nomv):
            """off-nominal ratio of one winding in pu of the bus base voltage"""
            nomv = nomv if nomv != 0 else kv[bus]
            if CW == 1:
                return float(w)
            if CW == 2:
                return float(w) / kv[bus]
            return float(w) * nomv / kv[bus]

        def z_sys(r, x, sbase, bus, nomv):
            if CZ == 1:
                return complex(r, x)
            if CZ == 2:
                nomv_ = nomv if nomv != 0 else kv[bus]
                return complex(r, x) * (Sb / sbase) * (nomv_ / kv[bus]) ** 2
            raise NotImplementedError("CZ=3")
        if two:
            l2, l3, l4 = rec[1], rec[2], rec[3]
            t1 = winding_ratio(l3[0], I, float(l3[1]))
            t2 = winding_ratio(l4[0], J, float(l4[1]))
            z = z_sys(float(l2[0]), float(l2[1]), float(l2[2]), I, float(l3[1]))
            # PSS/E equivalent circuit: ideal t1:1, series z, ideal 1:t2  ==  ratio t1/t2 on the from side with z * t2^2
            z = z * t2 ** 2
            phi = np.radians(float(l3[2]))
            net["line"].append(dict(idx="T%d" % nt, bus1=I, bus2=J, Sn=Sb, Vn1=kv[I], Vn2=kv[J], r=z.real, x=z.imag, b=0.0, g=0.0,
                                    g1=mag1 if CM == 1 else 0.0, b1=mag2 if CM == 1 else 0.0, g2=0.0, b2=0.0, tap=t1 / t2, phi=phi,
                                    u=stat, trans=1, windv2=t2, cm=CM, cz=CZ, cw=CW))
        else:
            Kb = int(K)
            l2 = rec[1]
            w = [rec[2], rec[3], rec[4]]
            buses = [I, J, Kb]
            z12 = z_sys(float(l2[0]), float(l2[1]), float(l2[2]), I, float(w[0][1]))
            z23 = z_sys(float(l2[3]), float(l2[4]), float(l2[5]), J, float(w[1][1]))
            z31 = z_sys(float(l2[6]), float(l2[7]), float(l2[8]), Kb, float(w[2][1]))
            zs = [(z12 + z31 - z23) / 2, (z12 + z23 - z31) / 2, (z23 + z31 - z12) / 2]
            star = ("star", I, J, Kb)
            net["bus"].append(dict(idx=star, Vn=1.0, type=1, star=True))
            kv[star] = 1.0
            for k3 in range(3):
                t = winding_ratio(w[k3][0], buses[k3], float(w[k3][1]))
                on = stat not in (0,) and not (stat == 2 and k3 == 1) and not (stat == 3 and k3 == 2) and not (stat == 4 and k3 == 0)
                net["line"].append(dict(idx="T%d_%d" % (nt, k3), bus1=buses[k3], bus2=star, Sn=Sb, Vn1=kv[buses[k3]], Vn2=1.0, r=zs[k3].real, x=zs[k3].imag,
                                        b=0.0, g=0.0, g1=(mag1 if (k3 == 0 and CM == 1) else 0.0), b1=(mag2 if (k3 == 0 and CM == 1) else 0.0),
                                        g2=0.0, b2=0.0, tap=t, phi=np.radians(float(w[k3][2])), u=int(on), trans=1, cm=CM, cz=CZ, cw=CW))
    for k, ln in enumerate(swsh_s):
        d = _split(ln)
        if len(d) > 9:
            net["shunt"].append(dict(idx="SW%d" % k, bus=d[0], Sn=Sb, Vn=kv[d[0]], g=0.0, b=float(d[9]) / Sb, u=int(d[3])))
    net["vmag"], net["vang"] = vmag, vang
    return net


def read_mpc(path_or_text):
    text = open(path_or_text).read() if "\n" not in path_or_text else path_or_text
    text = re.sub(r"%[^\n]*", "", text)
    m = re.search(r"mpc\.baseMVA\s*=\s*([-+0-9.eE]+)", text)
    Sb = float(m.group(1))

    def block(name):
        mm = re.search(r"mpc\.%s\s*=\s*\[(.*?)\]" % name, text, re.S)
        if not mm:
            return np.zeros((0, 0))
        rows = [r.strip() for r in re.split(r";|\n", mm.group(1)) if r.strip()]
        return np.array([[float(x) for x in r.replace(",", " ").split()] for r in rows])
    bus, gen, br = block("bus"), block("gen"), block("branch")
    net = dict(mva=Sb, bus=[], line=[], shunt=[], pq=[], pv=[], slack=[])
    kv = {}
    ty = {}
    va = {}
    for r in bus:
        i = int(r[0])
        kv[i] = float(r[9]) if r[9] != 0 else 110.0
        ty[i] = int(r[1])
        va[i] = float(r[8])
        net["bus"].append(dict(idx=i, Vn=kv[i], type=ty[i]))
        if r[2] != 0 or r[3] != 0:
            net["pq"].append(dict(idx="L%d" % i, bus=i, p0=r[2] / Sb, q0=r[3] / Sb, u=1, Vn=kv[i]))
        if r[4] != 0 or r[5] != 0:
            net["shunt"].append(dict(idx="S%d" % i, bus=i, Sn=Sb, Vn=kv[i], g=r[4] / Sb, b=r[5] / Sb, u=1))
    for k, r in enumerate(gen):
        i = int(r[0])
        e = dict(idx="G%d" % k, bus=i, p0=r[1] / Sb, q0=r[2] / Sb, v0=float(r[5]), u=int(r[7]), Sn=Sb, Vn=kv[i], qmax=r[3] / Sb, qmin=r[4] / Sb,
                 pmax=r[8] / Sb, pmin=r[9] / Sb)
        if ty[i] == 3:
            e["a0"] = np.radians(va[i])
            net["slack"].append(e)
        else:
            net["pv"].append(e)
    for k, r in enumerate(br):
        f, t = int(r[0]), int(r[1])
        ratio = float(r[8]) if r[8] != 0 else 1.0
        net["line"].append(dict(idx="BR%d" % k, bus1=f, bus2=t, Sn=Sb, Vn1=kv[f], Vn2=kv[t], r=float(r[2]), x=float(r[3]), b=float(r[4]), g=0.0,
                                g1=0.0, b1=0.0, g2=0.0, b2=0.0, tap=ratio, phi=np.radians(float(r[9])), u=int(r[10]), trans=int(r[8] != 0 or r[9] != 0),
                                ratio_field=float(r[8]), shift_field=float(r[9])))
    return net


def kron_reduce(Y, keep, drop):
    if not drop:
        return Y[np.ix_(keep, keep)]
    Ykk = Y[np.ix_(keep, keep)]
    Ykd = Y[np.ix_(keep, drop)]
    Ydk = Y[np.ix_(drop, keep)]
    Ydd = Y[np.ix_(drop, drop)]
    return Ykk - Ykd @ np.linalg.solve(Ydd, Ydk)
