"""
Declared content of a model class, collected without SymPy: the strings a model author wrote and
the order conventions of the generated tuples.  Used by C02/C03/C05.
"""
import importlib
import os

import numpy as np


def all_model_classes():
    from andes.models import file_classes
    out = []
    for fname, cls_list in file_classes:
        mod = importlib.import_module("andes.models." + fname)
        for cn in cls_list:
            out.append((cn, getattr(mod, cn)))
    return out


def instantiate(cls):
    """A model object outside any system, exactly as ANDES' own code generation creates it."""
    return cls(system=None, config=None)


def load_generated(model_name, pycode_dir=None):
    """Import the generated module of one model from the pycode directory that ANDES would load."""
    import importlib.util
    if pycode_dir is None:
        pycode_dir = os.path.join(os.path.expanduser("~"), ".andes", "pycode")
    path = os.path.join(pycode_dir, model_name + ".py")
    spec = importlib.util.spec_from_file_location("vf_pycode_" + model_name, path)
    mod = importlib.util.module_from_spec(spec)
    spec.loader.exec_module(mod)
    return mod


class Spec:
    """Declared strings and name classes of one model instance."""

    def __init__(self, m):
        self.m = m
        self.name = m.class_name
        self.subs = {n: s.v_str for n, s in m.services_subs.items() if s.v_str is not None}
        self.states = list(m.cache.states_and_ext.keys())
        self.algebs = list(m.cache.algebs_and_ext.keys())
        self.all_vars = dict(m.cache.all_vars)
        self.f_str = [m.cache.states_and_ext[n].e_str for n in self.states]
        self.g_str = [m.cache.algebs_and_ext[n].e_str for n in self.algebs]
        self.services = {n: (s.v_str if s.v_str is not None else "0") for n, s in m.services.items()}
        self.seq_services = [n for n, s in m.services.items() if s.sequential]
        self.nonseq_services = [n for n, s in m.services.items() if not s.sequential]
        self.complex_names = set(n for n, s in m.services.items() if getattr(s, "vtype", float) == complex)
        self.complex_names |= set(n for n, s in m.services_subs.items() if getattr(s, "vtype", float) == complex)
        # discrete flags
        self.flag_groups = []     # list of (kind, [names])
        self.flag_names = set()
        for dn, d in m.discrete.items():
            names = list(d.get_names())
            self.flag_names |= set(names)
            short = [x[len(dn) + 1:] if x.startswith(dn + "_") else x for x in names]
            if set(("zi", "zl", "zu")) <= set(short):
                trio = [dn + "_zi", dn + "_zl", dn + "_zu"]
                self.flag_groups.append(("onehot", trio))
                rest = [x for x in names if x not in trio]
                if rest:
                    self.flag_groups.append(("free", rest))
            elif all(s[0] == "s" and s[1:].isdigit() for s in short) and len(short) > 1:
                self.flag_groups.append(("onehot", names))
            elif set(short) == set(("z0", "z1")):
                self.flag_groups.append(("onehot", names))
            else:
                self.flag_groups.append(("free", names))
        self.config = dict(m.config.as_dict())
        self.config_alt = dict(m.config._alt)
        self.has_numeric = bool(m.flags.f_num or m.flags.g_num or m.flags.j_num or m.flags.s_num or m.flags.sv_num)
        self.block_numeric = any(getattr(b.flags, k, False) for b in m.blocks.values() for k in ("f_num", "g_num", "j_num"))

    def var_is_state(self, name):
        return name in self.m.cache.states_and_ext

    def draw_args(self, rng, names, n, breakpoints=(), dae_t=None):
        """Random argument values for the given names (numpy arrays of n devices / scalars)."""
        vals = {}
        # one-hot flag groups first, consistently over names
        for kind, group in self.flag_groups:
            if kind == "onehot":
                pick = rng.integers(0, len(group), n)
                for j, g in enumerate(group):
                    vals[g] = (pick == j).astype(float)
            else:
                for g in group:
                    vals[g] = rng.integers(0, 2, n).astype(float)
        out = {}
        for nm in names:
            if nm in ("__zeros",):
                out[nm] = np.zeros(n)
            elif nm == "__ones":
                out[nm] = np.ones(n)
            elif nm == "__falses":
                out[nm] = np.full(n, False)
            elif nm == "__trues":
                out[nm] = np.full(n, True)
            elif nm == "dae_t":
                out[nm] = np.array(dae_t if dae_t is not None else float(rng.choice([-1.0, 0.0, 0.5])))
            elif nm == "sys_f":
                out[nm] = np.array(float(rng.choice([50.0, 60.0])))
            elif nm == "sys_mva":
                out[nm] = np.array(float(rng.choice([100.0, 1000.0])))
            elif nm in vals:
                out[nm] = vals[nm]
            elif nm in self.config:
                alt = self.config_alt.get(nm)
                if isinstance(alt, (tuple, list)) and all(isinstance(a, (int, float)) for a in alt):
                    out[nm] = np.array(float(alt[int(rng.integers(0, len(alt)))]))
                else:
                    d = self.config[nm]
                    out[nm] = np.array(float(d)) if isinstance(d, (int, float)) else np.array(1.0)
            elif nm in self.complex_names:
                out[nm] = rng.uniform(-1.5, 1.5, n) + 1j * rng.uniform(-1.5, 1.5, n)
            else:
                v = rng.uniform(0.2, 1.6, n) * np.where(rng.random(n) < 0.2, -1.0, 1.0)
                if rng.random() < 0.15:
                    v = v * float(rng.choice([1e-3, 10.0, 100.0]))
                if len(breakpoints) and rng.random() < 0.3:
                    bp = np.array(breakpoints)[rng.integers(0, len(breakpoints), n)]
                    v = np.where(rng.random(n) < 0.5, bp + rng.choice([-1e-3, 1e-3, 0.0, 0.1, -0.1], n), v)
                out[nm] = v
        return out
