"""
Independent AC power-flow oracle.

Works on a plain description of the *physical input data* (device-base per-unit values with
the device's own Sn/Vn, taps, phase shifts, status flags) and knows nothing about ANDES'
equations.  Conversions follow the textbook definitions:

    z_sys = z_dev * (Vn_dev^2 / Sn_dev) / (Vb_bus^2 / Sb)       y_sys = y_dev / (that ratio)

Branch model (ideal transformer tap*exp(j phi) on the from side, pi-equivalent behind it):

    I1 = (y + ysh1) / |m|^2 * V1 - y / conj(m) * V2
    I2 = -y / m * V1 + (y + ysh2) * V2

``mismatch`` evaluates the complex power balance at every bus for given voltages and
generator outputs; ``solve`` is a small dense Newton-Raphson used to certify that a generated
network is well-posed and to provide reference voltages.
"""
import numpy as np

LINE_EPS = 1e-8  # ANDES adds this to r and x (system base) of every line: allowance, see branch_allowance()


def extract(ss):
    """Collect the physical data of the static network of a loaded ANDES system.

    Values are the *input* (device-base) numbers (``vin``); idx -> bus position is resolved
    here by a plain dictionary, not by ANDES' own lookup functions.
    Returns (data, unsupported) where ``unsupported`` lists power-flow models present in the
    system that this oracle does not model (then the oracle does not apply).
    """
    def vin(mdl, name):
        p = getattr(mdl, name)
        v = p.vin if getattr(p, "vin", None) is not None else p.v
        return np.array(v, dtype=float)

    Sb = float(ss.config.mva)
    bus_idx = list(ss.Bus.idx.v)
    pos = {}
    for i, b in enumerate(bus_idx):
        pos[b] = i
    d = dict(Sb=Sb, nb=len(bus_idx), bus_idx=bus_idx, bus_Vn=vin(ss.Bus, "Vn"), bus_u=np.array(ss.Bus.u.v, dtype=float))

    L = ss.Line
    d["line"] = dict(n=L.n, f=np.array([pos[b] for b in L.bus1.v], dtype=int),
                     t=np.array([pos[b] for b in L.bus2.v], dtype=int), idx=list(L.idx.v),
                     u=np.array(L.u.v, dtype=float),
                     **{k: vin(L, k) for k in ("Sn", "Vn1", "Vn2", "r", "x", "b", "g", "b1", "g1", "b2", "g2", "tap", "phi")})
    for name in ("Shunt", "PQ", "PV", "Slack"):
        m = getattr(ss, name)
        e = dict(n=m.n, bus=np.array([pos[b] for b in m.bus.v], dtype=int), idx=list(m.idx.v),
                 u=np.array(m.u.v, dtype=float))
        if name == "Shunt":
            for k in ("Sn", "Vn", "g", "b"):
                e[k] = vin(m, k)
        elif name == "PQ":
            for k in ("p0", "q0", "vmax", "vmin"):
                e[k] = vin(m, k)
        else:
            for k in ("p0", "q0", "v0", "qmax", "qmin", "pmax", "pmin"):
                e[k] = vin(m, k)
            if name == "Slack":
                e["a0"] = vin(m, "a0")
        d[name.lower()] = e
    d["pq2z"] = int(ss.PQ.config.pq2z)

    unsupported = []
    known = {"Bus", "Line", "Shunt", "PQ", "PV", "Slack", "Area", "Region", "Summary", "Toggle", "Toggler", "Fault",
             "Alter", "Output", "Owner", "Zone"}
    for name, m in ss.models.items():
        if m.n > 0 and m.flags.pflow and name not in known:
            unsupported.append(name)
    return d, unsupported


def branch_y(d):
    """Per-branch series and shunt admittances on the system base, and complex ratio m."""
    L = d["line"]
    Vb1 = d["bus_Vn"][L["f"]] if L["n"] else np.zeros(0)
    kz = (L["Vn1"] ** 2 / L["Sn"]) / (Vb1 ** 2 / d["Sb"])
    z = (L["r"] + 1j * L["x"]) * kz + d.get("line_eps", 0.0) * (1 + 1j)
    with np.errstate(all="ignore"):
        y = 1.0 / z
    ysh1 = ((L["g1"] + 0.5 * L["g"]) + 1j * (L["b1"] + 0.5 * L["b"])) / kz
    ysh2 = ((L["g2"] + 0.5 * L["g"]) + 1j * (L["b2"] + 0.5 * L["b"])) / kz
    m = L["tap"] * np.exp(1j * L["phi"])
    return y, ysh1, ysh2, m


def shunt_y(d):
    s = d["shunt"]
    if s["n"] == 0:
        return np.zeros(0, dtype=complex)
    Vb = d["bus_Vn"][s["bus"]]
    ky = (Vb ** 2 / d["Sb"]) / (s["Vn"] ** 2 / s["Sn"])
    return s["u"] * (s["g"] + 1j * s["b"]) * ky


def ybus(d):
    nb = d["nb"]
    Y = np.zeros((nb, nb), dtype=complex)
    L = d["line"]
    y, ysh1, ysh2, m = branch_y(d)
    for k in range(L["n"]):
        if L["u"][k] == 0:
            continue
        f, t = L["f"][k], L["t"][k]
        Y[f, f] += (y[k] + ysh1[k]) / abs(m[k]) ** 2
        Y[f, t] += -y[k] / np.conj(m[k])
        Y[t, f] += -y[k] / m[k]
        Y[t, t] += y[k] + ysh2[k]
    ys = shunt_y(d)
    for k in range(d["shunt"]["n"]):
        Y[d["shunt"]["bus"][k], d["shunt"]["bus"][k]] += ys[k]
    return Y


def degree(d):
    deg = np.zeros(d["nb"], dtype=int)
    L = d["line"]
    for k in range(L["n"]):
        if L["u"][k] != 0:
            deg[L["f"][k]] += 1
            deg[L["t"][k]] += 1
    return deg


def load_power(d, vm):
    """Total complex load per bus at voltage magnitudes vm (PQ with the documented pq2z rule)."""
    S = np.zeros(d["nb"], dtype=complex)
    q = d["pq"]
    n_conv = 0
    for k in range(q["n"]):
        if q["u"][k] == 0:
            continue
        b = q["bus"][k]
        p, qq = q["p0"][k], q["q0"][k]
        if d.get("pq2z", 1) and vm[b] > q["vmax"][k]:
            p, qq = p * vm[b] ** 2 / q["vmax"][k] ** 2, qq * vm[b] ** 2 / q["vmax"][k] ** 2
            n_conv += 1
        elif d.get("pq2z", 1) and vm[b] < q["vmin"][k]:
            p, qq = p * vm[b] ** 2 / q["vmin"][k] ** 2, qq * vm[b] ** 2 / q["vmin"][k] ** 2
            n_conv += 1
        S[b] += p + 1j * qq
    return S, n_conv


def branch_allowance(d, V):
    """Bound on the power mismatch caused by ANDES' documented +1e-8 on r and x."""
    al = np.zeros(d["nb"])
    L = d["line"]
    y, _, _, m = branch_y(d)
    dy = np.abs(y) ** 2 * np.sqrt(2.0) * LINE_EPS
    for k in range(L["n"]):
        if L["u"][k] == 0:
            continue
        f, t = L["f"][k], L["t"][k]
        dv = abs(V[f] / m[k] - V[t])
        al[f] += abs(V[f] / m[k]) * dy[k] * dv
        al[t] += abs(V[t]) * dy[k] * dv
    return al


def mismatch(d, V, pgen, qgen):
    """Complex power mismatch per bus: network injection + load - generation.

    pgen/qgen: arrays per bus with the total generator output (read from the solved system).
    """
    Y = ybus(d)
    Snet = V * np.conj(Y @ V)
    Sl, n_conv = load_power(d, np.abs(V))
    return Snet + Sl - (pgen + 1j * qgen), n_conv


def bus_types(d):
    """Return (slack buses, pv buses) as sets of positions, from online generators."""
    sl = set(int(b) for b, u in zip(d["slack"]["bus"], d["slack"]["u"]) if u != 0)
    pv = set(int(b) for b, u in zip(d["pv"]["bus"], d["pv"]["u"]) if u != 0) - sl
    return sl, pv


def solve(d, tol=1e-10, max_iter=10, start=None):
    """Dense NR from a flat start (or from the complex voltages ``start``).
    Returns dict(converged, iters, V, Sgen, live)."""
    nb = d["nb"]
    Y = ybus(d)
    sl, pv = bus_types(d)
    deg = degree(d)
    live = [i for i in range(nb) if deg[i] > 0]
    vm = np.ones(nb)
    va = np.zeros(nb)
    for k in range(d["pv"]["n"]):
        if d["pv"]["u"][k] != 0:
            vm[d["pv"]["bus"][k]] = d["pv"]["v0"][k]
    for k in range(d["slack"]["n"]):
        if d["slack"]["u"][k] != 0:
            vm[d["slack"]["bus"][k]] = d["slack"]["v0"][k]
            va[d["slack"]["bus"][k]] = d["slack"]["a0"][k]
    if start is not None:
        fixed_vm = vm.copy()
        vm = np.abs(start).astype(float)
        va = np.angle(start).astype(float)
        for i in sl | pv:
            vm[i] = fixed_vm[i]
        for k in range(d["slack"]["n"]):
            if d["slack"]["u"][k] != 0:
                va[d["slack"]["bus"][k]] = d["slack"]["a0"][k]
    pg = np.zeros(nb)
    for k in range(d["pv"]["n"]):
        if d["pv"]["u"][k] != 0:
            pg[d["pv"]["bus"][k]] += d["pv"]["p0"][k]
    pvl = [i for i in live if i in pv]
    pql = [i for i in live if i not in pv and i not in sl]
    ang = pvl + pql
    conv = False
    it = 0
    for it in range(max_iter + 1):
        V = vm * np.exp(1j * va)
        Sl, _ = load_power(d, vm)
        S = V * np.conj(Y @ V) + Sl - pg
        F = np.concatenate([S.real[ang], S.imag[pql]])
        if not np.all(np.isfinite(F)):
            break
        if len(F) == 0 or np.max(np.abs(F)) < tol:
            conv = True
            break
        Ibus = Y @ V
        dV = np.diag(V)
        dS_dVa = 1j * dV @ np.conj(np.diag(Ibus) - Y @ dV)
        dS_dVm = dV @ np.conj(Y @ np.diag(V / np.abs(V))) + np.conj(np.diag(Ibus)) @ np.diag(V / np.abs(V))
        J = np.block([[dS_dVa.real[np.ix_(ang, ang)], dS_dVm.real[np.ix_(ang, pql)]],
                      [dS_dVa.imag[np.ix_(pql, ang)], dS_dVm.imag[np.ix_(pql, pql)]]])
        try:
            dx = np.linalg.solve(J, -F)
        except np.linalg.LinAlgError:
            break
        va[ang] += dx[:len(ang)]
        vm[pql] += dx[len(ang):]
    V = vm * np.exp(1j * va)
    Sl, _ = load_power(d, vm)
    Sg = V * np.conj(Y @ V) + Sl
    return dict(converged=conv, iters=it, V=V, Sgen=Sg, live=live, cond=None)
