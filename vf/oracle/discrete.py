"""
Executable reference models of the discrete components, written from their docstrings (not from
the implementation).  Each reference keeps the *whole* input history and recomputes the
prescribed output from it, so that shifting/rolling bugs in the real classes show up.
"""
import numpy as np


def limiter_flags(u, lower, upper, equal=True, no_lower=False, no_upper=False, sign_lower=1, sign_upper=1,
                  defaults=(1.0, 0.0, 0.0)):
    """Return (zi, zl, zu) of a (hard) limiter / dead band for input array u."""
    zi0, zl0, zu0 = defaults
    up = -upper if sign_upper == -1 else upper
    lo = -lower if sign_lower == -1 else lower
    if no_upper:
        zu = np.full(len(u), zu0, dtype=float)
    else:
        zu = (u >= up) if equal else (u > up)
    if no_lower:
        zl = np.full(len(u), zl0, dtype=float)
    else:
        zl = (u <= lo) if equal else (u < lo)
    zu = np.asarray(zu, dtype=float)
    zl = np.asarray(zl, dtype=float)
    zi = 1.0 - np.logical_or(zu, zl)
    return zi, zl, zu


def antiwindup(u, e, lower, upper, zl_prev, zu_prev, niter, niter_lock=4):
    """Docstring: if x >= xmax and xdot >= 0: pegged at xmax; if x <= xmin and xdot <= 0: pegged at xmin.
    After ``niter_lock`` iterations the flags are only allowed to latch (anti-chatter)."""
    zu = np.logical_and(u >= upper, e >= 0)
    zl = np.logical_and(u <= lower, e <= 0)
    if niter > niter_lock:
        zu = np.logical_or(zu, zu_prev)
        zl = np.logical_or(zl, zl_prev)
    zi = np.logical_not(np.logical_or(zu, zl))
    return zi.astype(float), zl.astype(float), zu.astype(float)


class History:
    """Time-stamped history with the documented treatment of repeated and rewound time stamps:
    a call at a later time appends; a call at the same time replaces the newest value; a call at an
    earlier time (rewind after a rejected step) replaces the newest entry *and* its time stamp."""

    def __init__(self):
        self.t = []
        self.v = []
        self.rewound = False

    def push(self, t, v):
        v = np.array(v, dtype=float).copy()
        self.rewound = False
        if t == 0:
            self.t = [0.0]
            self.v = [v]
            return
        if not self.t:
            self.t = [0.0]
            self.v = [np.zeros_like(v)]
        if t > self.t[-1]:
            self.t.append(float(t))
            self.v.append(v)
        elif t == self.t[-1]:
            self.v[-1] = v
        else:
            self.rewound = True
            self.t[-1] = float(t)
            self.v[-1] = v


class DelayStepRef:
    """Output = the value ``delay`` calls (distinct accepted time stamps) ago; before enough history
    exists, the value at t = 0."""

    def __init__(self, delay):
        self.delay = delay
        self.h = History()

    def step(self, t, u):
        self.h.push(t, u)
        k = len(self.h.v) - 1 - self.delay
        return self.h.v[max(k, 0)].copy()


class DelayTimeRef:
    """Output = linear interpolation of the input history at (t - delay); the earliest value while
    t - delay precedes the history."""

    def __init__(self, delay):
        self.delay = delay
        self.h = History()

    def step(self, t, u):
        self.h.push(t, u)
        tt = np.array(self.h.t)
        vv = np.array(self.h.v)
        ti = t - self.delay
        if ti <= tt[0]:
            return vv[0].copy()
        return np.array([np.interp(ti, tt, vv[:, j]) for j in range(vv.shape[1])])


class AverageStepRef:
    """Trapezoidal time average over the last ``delay`` intervals (fewer while history is short)."""

    def __init__(self, delay):
        self.delay = delay
        self.h = History()

    def step(self, t, u):
        self.h.push(t, u)
        if t == 0:
            return self.h.v[-1].copy()
        tt = np.array(self.h.t[-(self.delay + 1):])
        vv = np.array(self.h.v[-(self.delay + 1):])
        if len(tt) < 2 or tt[-1] == tt[0]:
            return None          # undefined by the documentation (zero-width window)
        w = np.sum(0.5 * (vv[1:] + vv[:-1]) * (tt[1:] - tt[:-1])[:, None], axis=0)
        return w / (tt[-1] - tt[0])


class DerivativeRef:
    """(u(t) - u(t_prev)) / (t - t_prev); zero at t = 0 and right after a rewind; |v| < 1e-8 -> 0."""

    def __init__(self):
        self.h = History()

    def step(self, t, u):
        self.h.push(t, u)
        if t == 0 or self.h.rewound or len(self.h.t) < 2:
            return np.zeros_like(np.array(u, dtype=float))
        d = (self.h.v[-1] - self.h.v[-2]) / (self.h.t[-1] - self.h.t[-2])
        d[np.abs(d) < 1e-8] = 0.0
        return d


class DeadBandRTRef:
    """Docstring of DeadBandRT: zur is set when the input returns into the band from above (previous zu
    and present zi), held while the in-band status does not change, cleared otherwise; zlr likewise."""

    def __init__(self, n):
        self.zu = np.zeros(n)
        self.zl = np.zeros(n)
        self.zi = np.zeros(n)
        self.zur = np.zeros(n)
        self.zlr = np.zeros(n)

    def step(self, u, lower, upper):
        zi, zl, zu = limiter_flags(u, lower, upper, equal=False)
        set_u = np.logical_and(self.zu == 1, zi == 1)
        set_l = np.logical_and(self.zl == 1, zi == 1)
        hold = (self.zi == zi)
        self.zur = np.where(set_u, 1.0, np.where(hold, self.zur, 0.0))
        self.zlr = np.where(set_l, 1.0, np.where(hold, self.zlr, 0.0))
        self.zu, self.zl, self.zi = zu, zl, zi
        return zi, zl, zu, self.zur.copy(), self.zlr.copy()
