"""
Hermetic execution environment shared by every check.

* ``tree_hash()``  - SHA-256 over the ANDES sources of /repo's working tree.
* ``ensure_home()`` - a HOME directory keyed by that hash which contains freshly
  generated ``.andes/pycode`` (generated from the working tree, never a cached copy
  of some other tree) and no ``andes.rc``.
* ``child_env()``  - environment for worker subprocesses.

Nothing here imports andes in the driver process; code generation runs in a child.
"""
import fcntl
import hashlib
import os
import shutil
import subprocess
import sys
import time

VERIF = os.path.dirname(os.path.dirname(os.path.abspath(__file__)))
REPO = os.environ.get("VERIF_REPO", "/repo")
WORK = os.path.join(VERIF, ".work")
DEPS = os.path.join(VERIF, ".deps")
PY = os.environ.get("VERIF_PYTHON", "/venv/bin/python")
WHEELS = "/opt/veriftools/wheels"
GUARD = "ANDES_VERIF"


def tree_hash():
    h = hashlib.sha256()
    root = os.path.join(REPO, "andes")
    for d, dirs, files in sorted(os.walk(root)):
        dirs.sort()
        if "__pycache__" in d or os.sep + "cases" in d[len(root):]:
            continue
        for f in sorted(files):
            if f.endswith((".py", ".yaml", ".yml")):
                p = os.path.join(d, f)
                h.update(os.path.relpath(p, root).encode())
                with open(p, "rb") as fh:
                    h.update(fh.read())
    return h.hexdigest()[:16]


def ensure_deps():
    """icontract / deal beside the repository's interpreter (git-ignored .deps)."""
    if os.path.isdir(os.path.join(DEPS, "icontract")):
        return
    os.makedirs(WORK, exist_ok=True)
    with open(os.path.join(WORK, ".deps.lock"), "w") as lk:
        fcntl.flock(lk, fcntl.LOCK_EX)
        if os.path.isdir(os.path.join(DEPS, "icontract")):
            return
        tmp = DEPS + ".tmp%d" % os.getpid()
        shutil.rmtree(tmp, ignore_errors=True)
        env = dict(os.environ, PIP_NO_INDEX="1")
        subprocess.run([PY, "-m", "pip", "install", "-q", "--no-index", "--find-links", WHEELS,
                        "--no-deps", "--target", tmp, "icontract", "asttokens", "deal"],
                       check=False, env=env, stdout=subprocess.DEVNULL, stderr=subprocess.DEVNULL)
        if not os.path.isdir(os.path.join(tmp, "icontract")):
            # retry without deal (icontract is the one that is needed)
            subprocess.run([PY, "-m", "pip", "install", "-q", "--no-index", "--find-links", WHEELS,
                            "--no-deps", "--target", tmp, "icontract", "asttokens"],
                           check=True, env=env)
        shutil.rmtree(DEPS, ignore_errors=True)
        os.rename(tmp, DEPS)


def home_dir():
    return os.path.join(WORK, "home-" + tree_hash())


def ensure_home(verbose=True):
    """Return HOME with pycode generated from the current working tree."""
    os.makedirs(WORK, exist_ok=True)
    home = home_dir()
    marker = os.path.join(home, ".andes", "pycode", "__init__.py")
    if os.path.isfile(marker):
        return home
    with open(os.path.join(WORK, ".home.lock"), "w") as lk:
        fcntl.flock(lk, fcntl.LOCK_EX)
        if os.path.isfile(marker):
            return home
        tmp = home + ".tmp%d" % os.getpid()
        shutil.rmtree(tmp, ignore_errors=True)
        os.makedirs(tmp)
        t0 = time.time()
        code = ("import andes, sys\n"
                "andes.config_logger(stream_level=40)\n"
                "ss = andes.System(no_undill=True, default_config=True)\n"
                "ss.prepare(quick=True)\n")
        env = child_env(tmp)
        r = subprocess.run([PY, "-c", code], env=env, stdout=subprocess.PIPE, stderr=subprocess.STDOUT,
                           timeout=1800, cwd=tmp)
        if r.returncode != 0 or not os.path.isfile(os.path.join(tmp, ".andes", "pycode", "__init__.py")):
            sys.stdout.write(r.stdout.decode(errors="replace")[-4000:])
            shutil.rmtree(tmp, ignore_errors=True)
            raise RuntimeError("code generation from the working tree failed")
        # the generated files contain no absolute paths; move into place
        shutil.rmtree(home, ignore_errors=True)
        os.rename(tmp, home)
        if verbose:
            print("[env] generated pycode for tree %s in %.1fs" % (tree_hash(), time.time() - t0), flush=True)
        # prune old homes
        for d in os.listdir(WORK):
            p = os.path.join(WORK, d)
            if d.startswith("home-") and p != home and ".tmp" not in d:
                try:
                    if time.time() - os.path.getmtime(p) > 3600:
                        shutil.rmtree(p, ignore_errors=True)
                except OSError:
                    pass
    return home


def child_env(home=None, extra=None):
    env = dict(os.environ)
    env["HOME"] = home or home_dir()
    env["PYTHONHASHSEED"] = "0"
    # REPO first: the tree under test is imported from there even when the interpreter's editable install points elsewhere
    env["PYTHONPATH"] = os.pathsep.join([VERIF, DEPS, REPO] + ([env["PYTHONPATH"]] if env.get("PYTHONPATH") else []))
    env["MPLBACKEND"] = "Agg"
    env["OMP_NUM_THREADS"] = "1"
    env["OPENBLAS_NUM_THREADS"] = "1"
    env["MKL_NUM_THREADS"] = "1"
    env["NUMBA_NUM_THREADS"] = "1"
    env[GUARD] = "1"
    env["PIP_NO_INDEX"] = "1"
    if extra:
        env.update(extra)
    return env


def scratch_dir():
    d = os.path.join(WORK, "scratch", str(os.getpid()))
    os.makedirs(d, exist_ok=True)
    return d


if __name__ == "__main__":
    ensure_deps()
    print(ensure_home())
