"""
Worker process: ``python -m vf.worker <ID>``.

Reads one JSON case spec per line on stdin, runs ``checks.<id>.run_case(spec)`` on the real
code and answers with one JSON line on a private descriptor (fd 1 and 2 are redirected to a
log file so that whatever ANDES prints can not corrupt the protocol).
"""
import faulthandler
import importlib
import json
import os
import sys
import time
import traceback


def main():
    prop = sys.argv[1]
    logpath = sys.argv[2]
    proto = os.fdopen(os.dup(1), "w", buffering=1)
    os.makedirs(os.path.dirname(logpath), exist_ok=True)
    logfd = os.open(logpath, os.O_WRONLY | os.O_CREAT | os.O_TRUNC, 0o644)
    os.dup2(logfd, 1)
    os.dup2(logfd, 2)
    sys.stdout = os.fdopen(1, "w", buffering=1)
    sys.stderr = os.fdopen(2, "w", buffering=1)
    faulthandler.enable(file=sys.stderr, all_threads=True)

    import warnings
    warnings.filterwarnings("ignore")
    import numpy as np
    np.seterr(all="ignore")

    from vf.util import dumps, Result
    mod = importlib.import_module("vf.checks." + prop.lower())
    if hasattr(mod, "worker_init"):
        mod.worker_init()
    proto.write(dumps({"ready": True}) + "\n")

    for line in sys.stdin:
        line = line.strip()
        if not line:
            continue
        spec = json.loads(line)
        if spec.get("__quit__"):
            break
        t0 = time.time()
        print("=== case %s" % spec.get("id"), flush=True)
        try:
            res = mod.run_case(spec)
            if isinstance(res, Result):
                res = res.out()
        except Exception:  # harness or unexpected repo error: never silently 'held'
            tb = traceback.format_exc()
            print(tb, flush=True)
            res = dict(id=spec.get("id"), verdict="inconclusive", violations=[], obs={},
                       reason="exception in case: " + tb[-1500:], nontrivial=False, sig=None, sample=None)
        res["wall_s"] = round(time.time() - t0, 3)
        proto.write(dumps(res) + "\n")
        proto.flush()


if __name__ == "__main__":
    main()
