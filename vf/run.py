"""
Driver: ``python -m vf.run <ID> [--tier quick|thorough] [--replay file] [--jobs N]``.

Builds the case list of the check, runs the cases in persistent worker subprocesses
(dynamic work queue, per-case watchdog, crash isolation), classifies violations against
KNOWN_FINDINGS.json, writes evidence/<ID>.json and replay files, prints verdict lines.

Exit status: 0 = property held on everything explored (KNOWN-FINDING lines may be printed);
1 = at least one unlisted violation (VIOLATION lines); 2 = inconclusive (deciding monitor
not reached / too many cases without verdict).
"""
import argparse
import importlib
import json
import os
import queue
import select
import subprocess
import sys
import threading
import time

from vf import env
from vf.util import dumps, short_hash


def load_findings():
    p = os.path.join(env.VERIF, "KNOWN_FINDINGS.json")
    if not os.path.isfile(p):
        return []
    with open(p) as f:
        return json.load(f).get("findings", [])


class Worker:
    def __init__(self, prop, slot, childenv):
        self.prop = prop
        self.slot = slot
        self.childenv = childenv
        self.p = None
        self.buf = b""
        self.n = 0

    def start(self):
        self.n += 1
        self.log = os.path.join(env.WORK, "logs", self.prop, "w%02d_%d.log" % (self.slot, self.n))
        self.p = subprocess.Popen([env.PY, "-m", "vf.worker", self.prop, self.log], stdin=subprocess.PIPE,
                                  stdout=subprocess.PIPE, env=self.childenv, cwd=env.VERIF)
        self.buf = b""
        msg = self._readline(300)
        if msg is None or not msg.get("ready"):
            raise RuntimeError("worker failed to start, see %s" % self.log)

    def _readline(self, timeout):
        fd = self.p.stdout.fileno()
        deadline = time.time() + timeout
        while b"\n" not in self.buf:
            left = deadline - time.time()
            if left <= 0:
                return "timeout"
            r, _, _ = select.select([fd], [], [], min(left, 5.0))
            if r:
                chunk = os.read(fd, 1 << 16)
                if not chunk:
                    return None  # EOF: worker died
                self.buf += chunk
        line, self.buf = self.buf.split(b"\n", 1)
        return json.loads(line)

    def run(self, spec, timeout):
        if self.p is None or self.p.poll() is not None:
            self.start()
        try:
            self.p.stdin.write((dumps(spec) + "\n").encode())
            self.p.stdin.flush()
        except (BrokenPipeError, OSError):
            self.kill()
            return dict(id=spec.get("id"), verdict="inconclusive", reason="worker pipe broken", violations=[],
                        obs={}, nontrivial=False, sig=None, sample=None, crashed=True)
        msg = self._readline(timeout)
        if msg == "timeout":
            self.kill()
            return dict(id=spec.get("id"), verdict="inconclusive", reason="watchdog %ds" % timeout, violations=[],
                        obs={}, nontrivial=False, sig=None, sample=None, watchdog=True)
        if msg is None:
            rc = self.p.wait()
            tail = ""
            try:
                with open(self.log, "rb") as f:
                    f.seek(max(0, os.path.getsize(self.log) - 1500))
                    tail = f.read().decode(errors="replace")
            except OSError:
                pass
            self.p = None
            return dict(id=spec.get("id"), verdict="inconclusive", reason="worker died rc=%s: %s" % (rc, tail[-800:]),
                        violations=[], obs={}, nontrivial=False, sig=None, sample=None, crashed=True, rc=rc)
        return msg

    def kill(self):
        if self.p is not None:
            try:
                self.p.kill()
                self.p.wait(10)
            except Exception:
                pass
        self.p = None

    def stop(self):
        if self.p is not None and self.p.poll() is None:
            try:
                self.p.stdin.write(b'{"__quit__": true}\n')
                self.p.stdin.flush()
                self.p.stdin.close()
                self.p.wait(20)
            except Exception:
                self.kill()
        self.p = None


def run_cases(prop, mod, specs, jobs, childenv, progress=True):
    q = queue.Queue()
    for i, s in enumerate(specs):
        q.put((i, s))
    results = [None] * len(specs)
    default_to = getattr(mod, "TIMEOUT", 300)
    lock = threading.Lock()
    done = [0]
    t0 = time.time()

    def slot(k):
        w = Worker(prop, k, childenv)
        while True:
            try:
                i, s = q.get_nowait()
            except queue.Empty:
                break
            to = s.get("timeout", default_to)
            try:
                r = w.run(s, to)
                if r.get("watchdog") and hasattr(mod, "on_watchdog"):
                    r = mod.on_watchdog(s, r, lambda spec, t: w.run(spec, t))
            except Exception as e:  # worker start failure
                r = dict(id=s.get("id"), verdict="inconclusive", reason="driver: %r" % (e,), violations=[], obs={},
                         nontrivial=False, sig=None, sample=None)
            results[i] = r
            with lock:
                done[0] += 1
                if progress and (done[0] % max(1, len(specs) // 10) == 0 or done[0] == len(specs)):
                    print("[%s] %d/%d cases, %.0fs" % (prop, done[0], len(specs), time.time() - t0), flush=True)
        w.stop()

    threads = [threading.Thread(target=slot, args=(k,), daemon=True) for k in range(min(jobs, max(1, len(specs))))]
    for t in threads:
        t.start()
    for t in threads:
        t.join()
    return results


def main(argv=None):
    ap = argparse.ArgumentParser()
    ap.add_argument("prop")
    ap.add_argument("--tier", default=os.environ.get("VERIF_TIER", "quick"), choices=["quick", "thorough"])
    ap.add_argument("--replay")
    ap.add_argument("--jobs", type=int, default=int(os.environ.get("VERIF_JOBS", "16")))
    ap.add_argument("--seed", type=int, default=int(os.environ.get("VERIF_SEED", "0")))
    ap.add_argument("--only", help="substring filter on case ids (debugging)")
    ap.add_argument("--limit", type=int)
    ap.add_argument("--rounds", type=int, help="number of seeds explored in one run (default: 3 for thorough, 1 for quick)")
    ap.add_argument("--no-evidence", action="store_true")
    a = ap.parse_args(argv)
    prop = a.prop.upper()
    t_start = time.time()

    env.ensure_deps()
    home = env.ensure_home()
    # ANDES makes a log directory under the temp dir in every process: keep those out of /tmp and remove them with the run
    tmpd = os.path.join(env.WORK, "tmp", str(os.getpid()))
    os.makedirs(tmpd, exist_ok=True)
    import atexit
    import shutil
    atexit.register(shutil.rmtree, tmpd, True)
    import tempfile
    tempfile.tempdir = tmpd          # the driver itself imports ANDES for some case lists
    childenv = env.child_env(home, {"VERIF_SEED": str(a.seed), "VERIF_TIER": a.tier, "TMPDIR": tmpd})
    sys.path.insert(0, env.DEPS)
    mod = importlib.import_module("vf.checks." + prop.lower())

    replay_spec = None
    if a.replay:
        with open(a.replay) as f:
            rp = json.load(f)
        replay_spec = rp["spec"]
        specs = [replay_spec]
    else:
        specs = mod.cases(a.tier, a.seed)
        # the thorough tier explores several seeds in one run: generated cases (those carrying an "index") are drawn again
        # under further seeds, cases fixed by a file or a name run once
        rounds = a.rounds if a.rounds is not None else (int(os.environ.get("VERIF_ROUNDS", "3")) if a.tier == "thorough" else 1)
        for r in range(1, max(1, rounds)):
            sd_r = a.seed + 1000 * r
            for s_ in mod.cases(a.tier, sd_r):
                if "index" in s_:
                    s_ = dict(s_, seed=sd_r, id="%s@s%d" % (s_.get("id"), sd_r))
                    specs.append(s_)
        if a.only:
            specs = [s for s in specs if a.only in str(s.get("id"))]
        if a.limit:
            specs = specs[:a.limit]
    for s in specs:
        s.setdefault("seed", a.seed)
        s.setdefault("tier", a.tier)

    results = run_cases(prop, mod, specs, a.jobs, childenv)

    # ---------------- classification -----------------
    findings = [f for f in load_findings() if f["property"] == prop]
    known = {f["key"]: f for f in findings if f.get("status") == "known"}
    n_held = n_viol = n_inc = 0
    obs = {}
    known_hits = {}
    new_viol = []
    inc_reasons = {}
    sigs = set()
    samples = []
    for spec, r in zip(specs, results):
        for k, v in (r.get("obs") or {}).items():
            if k.startswith("max_"):
                obs[k] = max(obs.get(k, v), v)
            else:
                obs[k] = obs.get(k, 0) + v
        if r["verdict"] == "violated":
            unlisted = []
            for w in r["violations"]:
                key = mod.finding_key(w, spec) if hasattr(mod, "finding_key") else w.get("mech")
                if key in known:
                    known_hits.setdefault(key, []).append((spec, w))
                else:
                    unlisted.append(w)
            if unlisted:
                n_viol += 1
                new_viol.append((spec, unlisted, r))
            else:
                n_held += 1  # only listed findings: the rest of the case held
        elif r["verdict"] == "held":
            n_held += 1
        else:
            n_inc += 1
            reason = (r.get("reason") or "?")
            inc_reasons.setdefault(reason[:160], []).append(spec.get("id"))
        if r.get("nontrivial") and r.get("sig") is not None:
            sigs.add(str(r["sig"]))
        if r.get("sample") is not None and len(samples) < 6:
            samples.append(dict(case=spec.get("id"), verdict=r["verdict"], observed=r["sample"]))

    # ---------------- output -----------------
    exit_code = 0
    for key, hits in sorted(known_hits.items()):
        print("KNOWN-FINDING: property=%s %s: %s (%d case(s), e.g. %s: %s)" % (
            prop, key, known[key].get("mechanism", ""), len(hits), hits[0][0].get("id"), hits[0][1]["msg"][:200]))
    rdir = os.path.join(env.VERIF, "replay", prop)
    for spec, ws, r in new_viol:
        os.makedirs(rdir, exist_ok=True)
        path = os.path.join(rdir, "%s.json" % short_hash(spec))
        with open(path, "w") as f:
            f.write(dumps(dict(property=prop, spec=spec, violations=ws, obs=r.get("obs"), tier=a.tier, seed=a.seed,
                               tree=env.tree_hash()), indent=1))
        print("VIOLATION property=%s replay=%s" % (prop, path))
        for w in ws[:3]:
            print("  - [%s] %s" % (w.get("mech"), w["msg"][:400]))
        exit_code = 1

    required = getattr(mod, "REQUIRED_OBS", {})
    if not a.replay and not a.only and not a.limit:
        missing = [k for k, mn in required.items() if obs.get(k, 0) < mn]
    else:
        missing = []
    cap = getattr(mod, "INCONCLUSIVE_CAP", 0.15)
    inconclusive_msg = None
    if missing:
        inconclusive_msg = "deciding monitors observed too little: " + ", ".join(
            "%s=%s(<%s)" % (k, obs.get(k, 0), required[k]) for k in missing)
    elif specs and n_inc > cap * len(specs) and n_inc > 1:
        inconclusive_msg = "%d of %d cases without verdict" % (n_inc, len(specs))
    elif not specs:
        inconclusive_msg = "no cases"
    if inc_reasons:
        for reason, ids in list(inc_reasons.items())[:8]:
            print("[%s] inconclusive x%d (%s): %s" % (prop, len(ids), ids[0], reason.replace("\n", " | ")[:300]))
    if inconclusive_msg and exit_code == 0:
        print("INCONCLUSIVE property=%s reason=%s" % (prop, inconclusive_msg))
        exit_code = 2

    wall = time.time() - t_start
    distinct = len(sigs)
    if not samples:
        samples = [dict(case=s.get("id"), spec=s) for s in specs[:3]]
    coverage = dict(evaluations=len(specs), distinct_nontrivial=distinct, rule=getattr(mod, "RULE", ""),
                    samples=samples, held=n_held, violated=n_viol, inconclusive=n_inc, observed=obs,
                    known_findings_seen={k: len(v) for k, v in known_hits.items()},
                    inconclusive_reasons={k: len(v) for k, v in list(inc_reasons.items())[:8]},
                    tree_hash=env.tree_hash(), exhaustive=bool(getattr(mod, "EXHAUSTIVE", False)))
    evidence = dict(property_id=prop, tier=a.tier, seed=a.seed, level=getattr(mod, "LEVEL", "exploration"),
                    coverage=coverage, assumptions=list(getattr(mod, "ASSUMPTIONS", [])), wall_s=round(wall, 2),
                    violations=n_viol)
    if not a.replay and not a.no_evidence and not a.only and not a.limit:
        os.makedirs(os.path.join(env.VERIF, "evidence"), exist_ok=True)
        with open(os.path.join(env.VERIF, "evidence", prop + ".json"), "w") as f:
            f.write(dumps(evidence, indent=1))
    print("[%s] tier=%s seed=%d cases=%d held=%d violated=%d inconclusive=%d distinct_nontrivial=%d wall=%.1fs exit=%d" % (
        prop, a.tier, a.seed, len(specs), n_held, n_viol, n_inc, distinct, wall, exit_code))
    slow = sorted(((r.get("wall_s", 0.0), s_.get("id")) for s_, r in zip(specs, results)), reverse=True)[:4]
    print("[%s] slowest cases: %s" % (prop, ", ".join("%s %.0fs" % (i, w) for w, i in slow)))
    keys = sorted(obs)
    print("[%s] observed: %s" % (prop, ", ".join("%s=%s" % (k, ("%.4g" % obs[k] if isinstance(obs[k], float) else obs[k]))
                                                  for k in keys)))
    return exit_code


if __name__ == "__main__":
    sys.exit(main())
