#!/bin/bash
# tools/try_mutant.sh <seeded/Cxx/mN | patch file> <tier> <ID> [<ID> ...]
# Apply a seeded change to /repo, run the given checks (no evidence written), undo the change.  Prints one line per check.
p=$1; tier=$2; shift 2
[ -d "$p" ] && p=$p/patch.diff
patch=$(readlink -f "$p")
label=$(basename $(dirname $(dirname $patch)))_$(basename $(dirname $patch))
cd /repo || exit 2
if ! git diff --quiet; then echo "/repo has uncommitted changes"; exit 2; fi
git apply "$patch" || { echo "patch does not apply"; exit 2; }
trap 'git -C /repo checkout -- . ' EXIT
cd /verif
for id in "$@"; do
  out=.work/mut_${label}_$id.log
  ./check $id --tier $tier --no-evidence > $out 2>&1
  rc=$?
  echo "MUTANT $label check=$id tier=$tier exit=$rc violations=$(grep -c '^VIOLATION' $out) first=$(grep -m1 -E '^\s+- \[' $out | cut -c1-220)"
done
