#!/bin/bash
# tools/try_mutant.sh <patch> <tier> <ID> [<ID> ...]
# Apply a seeded change to /repo, run the given checks (no evidence written), undo the change.  Prints one line per check.
patch=$1; tier=$2; shift 2
cd /repo || exit 2
if ! git diff --quiet; then echo "/repo has uncommitted changes"; exit 2; fi
git apply "$patch" || { echo "patch does not apply"; exit 2; }
trap 'git -C /repo checkout -- . ' EXIT
cd /verif
for id in "$@"; do
  out=.work/mut_$(basename "$patch" .diff)_$id.log
  ./check $id --tier $tier --no-evidence > $out 2>&1
  rc=$?
  echo "MUTANT $(basename $(dirname $patch))/$(basename $patch) check=$id tier=$tier exit=$rc violations=$(grep -c '^VIOLATION' $out) first=$(grep -m1 -A1 '^VIOLATION' $out | tail -1 | cut -c1-200)"
done
