"""tools/one_case.py <ID> <case-id-substring> [seed]  - run one case in-process with the full traceback (debugging aid)."""
import importlib, json, os, subprocess, sys
sys.path.insert(0, os.path.dirname(os.path.dirname(os.path.abspath(__file__))))
from vf import env
if os.environ.get("VF_INNER") != "1":
    env.ensure_deps(); home = env.ensure_home()
    e = env.child_env(home); e["VF_INNER"] = "1"
    sys.exit(subprocess.call([env.PY, __file__] + sys.argv[1:], env=e))
mod = importlib.import_module("vf.checks." + sys.argv[1].lower())
seed = int(sys.argv[3]) if len(sys.argv) > 3 else 0
tier = os.environ.get("VERIF_TIER", "quick")
mod.worker_init()
for spec in mod.cases(tier, seed):
    if sys.argv[2] in spec["id"]:
        spec["seed"] = seed
        r = mod.run_case(spec)
        print(json.dumps(r.out(), indent=1, default=str)[:6000])
        break
