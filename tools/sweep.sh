#!/bin/bash
# tools/sweep.sh <tier> "<seeds>" [ids...]  - run checks over several seeds without touching evidence; summary at the end
cd "$(dirname "$0")/.."
tier=${1:-quick}; seeds=${2:-"1 2 3"}; shift 2
ids=${@:-$(ls vf/checks | grep -E '^c[0-9]+\.py$' | sed 's/\.py//' | tr a-z A-Z)}
mkdir -p .work/sweep
for s in $seeds; do for id in $ids; do
  VERIF_SEED=$s ./check $id --tier $tier --no-evidence > .work/sweep/$id.$tier.$s.log 2>&1
  rc=$?
  echo "$id tier=$tier seed=$s exit=$rc $(grep -c '^VIOLATION' .work/sweep/$id.$tier.$s.log) violations; $(tail -2 .work/sweep/$id.$tier.$s.log | head -1 | cut -c1-160)"
  if [ $rc -ne 0 ]; then grep -A3 -E '^VIOLATION|^INCONCLUSIVE' .work/sweep/$id.$tier.$s.log | head -12 | cut -c1-400; fi
done; done
