#!/bin/bash
# Run the repository's own pinned test suite with the verification guard OFF and compare
# with the stable-pass list of /root/.vp/BASELINE.json.  Usage: tools/run_baseline.sh [repo-dir]
REPO=${1:-/repo}
OUT=$(mktemp -d /tmp/baseline.XXXXXX)
unset ANDES_VERIF
cd "$REPO" && HOME=$OUT/home /venv/bin/python -m pytest -ra -q -p no:cacheprovider --timeout=900 \
   --continue-on-collection-errors --junitxml=$OUT/junit.xml > $OUT/log.txt 2>&1
/venv/bin/python - "$OUT/junit.xml" <<'PY'
import json, sys, xml.etree.ElementTree as ET
base = json.load(open('/root/.vp/BASELINE.json'))
want = set(base['stable_pass'])
passed = set()
for tc in ET.parse(sys.argv[1]).getroot().iter('testcase'):
    bad = any(c.tag in ('failure', 'error', 'skipped') for c in tc)
    if not bad:
        passed.add('%s::%s' % (tc.get('classname'), tc.get('name')))
missing = sorted(want - passed)
print('baseline: %d/%d stable tests pass' % (len(want & passed), len(want)))
for m in missing:
    print('  MISSING', m)
sys.exit(1 if missing else 0)
PY
rc=$?
echo "log: $OUT/log.txt"
[ $rc -eq 0 ] && rm -rf "$OUT"
exit $rc
