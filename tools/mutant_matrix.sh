#!/bin/bash
# tools/mutant_matrix.sh [tier]  - every seeded change against the check of its own property (official procedure: git apply in /repo, undo).
tier=${1:-quick}
cd /verif
for d in seeded/C*/m*; do
  id=$(basename $(dirname $d))
  tools/try_mutant.sh $d $tier $id
done
