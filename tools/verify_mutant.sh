#!/bin/bash
# tools/verify_mutant.sh <patch> <demo.py> [notests]
# Confirms a seeded change in a scratch worktree of /repo (removed afterwards):
#   demo exits 0 on the unmodified tree, exits 1 with the change, and the pinned test suite still passes with the change.
# Prints one summary line:  VERIFY <patch> clean=<rc> mutated=<rc> tests=<ok|FAIL|skipped>
patch=$(readlink -f "$1"); demo=$(readlink -f "$2"); notests=$3
wt=$(mktemp -d /tmp/mv.XXXXXX)
trap 'git -C /repo worktree remove --force "$wt" >/dev/null 2>&1; rm -rf "$wt"' EXIT
git -C /repo worktree add --detach "$wt" HEAD -q || exit 2
cd "$wt" || exit 2
run_demo() { rm -rf "$wt/.home/.andes"; HOME="$wt/.home" PYTHONPATH="$wt" timeout 1500 /venv/bin/python "$demo" > "$wt/.demo_$1.log" 2>&1; echo $?; }
mkdir -p "$wt/.home"
# demos written by the seeders refer to their own worktree path in places: rewrite to this one
sed -E "s#/tmp/mut/wt_C[0-9]+#$wt#g" "$demo" > "$wt/.demo.py"; demo="$wt/.demo.py"
clean=$(run_demo clean)
git apply "$patch" || { echo "VERIFY $1 patch-does-not-apply"; exit 2; }
mut=$(run_demo mut)
tests=skipped
if [ -z "$notests" ]; then
  if PYTHONPATH="$wt" /verif/tools/run_baseline.sh "$wt" > "$wt/.tests.log" 2>&1; then tests=ok; else tests="FAIL($(grep -c MISSING "$wt/.tests.log"))"; fi
fi
echo "VERIFY $1 clean=$clean mutated=$mut tests=$tests :: $(tail -1 "$wt/.demo_mut.log" | cut -c1-160)"
