#!/bin/bash
# tools/try_mutant_wt.sh <seeded/Cxx/mN> <tier> <ID> [<ID> ...]   (development aid)
# Like try_mutant.sh but in a scratch worktree (VERIF_REPO), so several can run side by side and /repo stays untouched.
p=$1; tier=$2; shift 2
patch=$(readlink -f "$p/patch.diff")
label=$(basename $(dirname $(dirname $patch)))_$(basename $(dirname $patch))
wt=$(mktemp -d /tmp/mw.XXXXXX)
trap 'git -C /repo worktree remove --force "$wt" >/dev/null 2>&1; rm -rf "$wt"' EXIT
git -C /repo worktree add --detach "$wt" HEAD -q || exit 2
git -C "$wt" apply "$patch" || { echo "patch does not apply"; exit 2; }
cd /verif
for id in "$@"; do
  out=.work/mutwt_${label}_$id.log
  VERIF_REPO=$wt ./check $id --tier $tier --no-evidence $EXTRA > $out 2>&1
  rc=$?
  echo "MUTANT(wt) $label check=$id tier=$tier exit=$rc violations=$(grep -c '^VIOLATION' $out) first=$(grep -m1 -E '^\s+- \[' $out | cut -c1-220)"
done
