#!/bin/bash
# tools/mutant_matrix_wt.sh <tier> <pattern, e.g. 'm[345]'> [parallel]  - seeded changes against the check of their own property,
# each in its own scratch worktree (VERIF_REPO), N at a time.  One MUTANT(wt) line per change in .work/matrix_wt.log
tier=${1:-quick}; pat=${2:-'m*'}; par=${3:-2}
cd /verif
: > .work/matrix_wt.log
for d in seeded/C*/$pat; do
  [ -f $d/patch.diff ] || continue
  id=$(basename $(dirname $d))
  ( tools/try_mutant_wt.sh $d $tier $id 2>&1 | grep 'MUTANT\|apply' >> .work/matrix_wt.log ) &
  while [ $(jobs -r | wc -l) -ge $par ]; do sleep 3; done
done
wait
