#!/venv/bin/python
"""Regenerate MANIFEST.json from the check modules present in vf/checks (keeps it valid at all times)."""
import importlib
import json
import os
import subprocess
import sys

ROOT = os.path.dirname(os.path.dirname(os.path.abspath(__file__)))
sys.path.insert(0, ROOT)

META = {
    "C01": ("differential monitoring of the real PFlow.run() against an independent power-balance oracle and own Newton solver",
            "Held-on-what-was-explored: generated networks (feasible by construction) and stock cases, every presentation/format/solver variant; "
            "a sampled, not exhaustive, input space.", "3/C01"),
    "C12": ("runtime post-condition on System.connectivity()/ConnMan.act() against an own union-find reference",
            "Random topologies and on/off patterns, plus every connectivity() call made inside PF/TDS runs of stock cases.", "3/C12"),
}


def main():
    props = [json.loads(l) for l in open(os.path.join(ROOT, "properties.jsonl"))]
    ids = [p["id"] for p in props]
    repo_commits = []
    try:
        out = subprocess.run(["git", "-C", "/repo", "log", "--format=%h %s"], capture_output=True, text=True).stdout
        repo_commits = [l.split()[0] for l in out.splitlines() if "verif-hook:" in l]
    except Exception:
        pass
    checks = []
    na = []
    for pid in ids:
        modpath = os.path.join(ROOT, "vf", "checks", pid.lower() + ".py")
        if not os.path.isfile(modpath):
            na.append(dict(property_id=pid, reason="no check registered yet in this round (machinery under construction; see DESIGN.md section 3/%s)" % pid))
            continue
        src = open(modpath).read()
        level = "fault_enumeration" if 'LEVEL = "fault_enumeration"' in src else "exploration"
        tech, text, ref = META.get(pid, ("runtime monitoring of the real code against an independent reference oracle",
                                         "Held on the executions explored.", "3/" + pid))
        checks.append(dict(
            property_id=pid,
            quick_cmd="./check %s --tier quick" % pid,
            thorough_cmd="./check %s --tier thorough" % pid,
            evidence_file="evidence/%s.json" % pid,
            replay_cmd_template="./check %s --replay {path}" % pid,
            engine="vf",
            level_claimed=dict(category=level, text=text, design_ref="DESIGN.md " + ref),
            level_note="Trusted base: the independent oracle code under vf/oracle and the monitors in vf/checks; numpy/scipy; "
                       "verdict = held on the executions observed, never a proof.",
            technique=tech))
    man = dict(
        version=1,
        setup_cmd="./setup.sh",
        hooks=dict(guard="ANDES_VERIF",
                   enable="none needed: all monitors attach from the harness by wrapping public attributes of live objects "
                          "(checks export ANDES_VERIF=1 for forward compatibility)",
                   baseline_off_cmd="cd /repo && /venv/bin/python -m pytest -ra -q -p no:cacheprovider --timeout=900 "
                                    "--continue-on-collection-errors",
                   source_commits=repo_commits, add_only=True),
        engines=[dict(name="vf", path="vf/", serves_properties=[c["property_id"] for c in checks],
                      kind_free_text="runtime monitoring harness: driver + persistent worker subprocesses running the real ANDES code "
                                     "from /repo's working tree with freshly generated pycode; independent oracles; offline checkers")],
        checks=checks,
        notes="Genuine defects repaired in /repo are 'fix:' commits listed in KNOWN_FINDINGS.json (status fixed); still-open ones "
              "are status known and are printed as KNOWN-FINDING lines.",
        not_applicable=na)
    with open(os.path.join(ROOT, "MANIFEST.json"), "w") as f:
        json.dump(man, f, indent=1)
    # validate
    try:
        import jsonschema
        jsonschema.validate(man, json.load(open("/root/.vp/MANIFEST.schema.json")))
        print("MANIFEST.json valid: %d checks, %d not yet claimed" % (len(checks), len(na)))
    except ImportError:
        print("MANIFEST.json written (jsonschema not importable here)")


if __name__ == "__main__":
    main()
