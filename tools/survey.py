"""Survey stock cases: PF / init / 2 s TDS status (used to pick workloads; not a check)."""
import json, os, sys, subprocess, time
sys.path.insert(0, os.path.dirname(os.path.dirname(os.path.abspath(__file__))))
from vf import env
CODE = r'''
import sys, json, numpy as np
from vf import au
au.quiet()
rel = sys.argv[1]
out = dict(case=rel)
try:
    kw = {}
    d = au.dyr_for(rel)
    if d: kw['addfile'] = au.case(d)
    ss = au.load(rel, **kw)
    out['models'] = {k: m.n for k, m in ss.models.items() if m.n}
    out['pf'] = bool(ss.PFlow.run())
    if out['pf']:
        ss.TDS.config.tf = 2.0; ss.TDS.config.no_tqdm = 1
        ss.TDS.init()
        out['init_ok'] = bool(ss.TDS.test_ok); out['n'] = int(ss.dae.n); out['m'] = int(ss.dae.m)
        out['switch_times'] = [float(t) for t in ss.switch_times]
        out['tds'] = bool(ss.TDS.run()); out['t_end'] = float(ss.dae.t)
        out['exit_code'] = int(ss.exit_code)
        out['zero_Tf'] = int(np.sum(ss.dae.Tf == 0))
except Exception as e:
    out['error'] = repr(e)[:300]
print('RESULT' + json.dumps(out))
'''
def main():
    from concurrent.futures import ThreadPoolExecutor
    home = env.ensure_home()
    e = env.child_env(home)
    sys.path.insert(0, env.VERIF)
    import glob
    root = os.path.join(env.REPO, 'andes', 'cases')
    rels = []
    for p in sorted(glob.glob(os.path.join(root, '**', '*'), recursive=True)):
        if p.endswith(('.xlsx', '.json', '.raw', '.m')) and os.path.basename(p) not in ('pqts.xlsx', 'plbvf.xlsx'):
            rels.append(os.path.relpath(p, root))
    def one(rel):
        t0 = time.time()
        try:
            r = subprocess.run([env.PY, '-c', CODE, rel], env=e, capture_output=True, text=True, timeout=600, cwd=env.VERIF)
            for l in r.stdout.splitlines():
                if l.startswith('RESULT'):
                    o = json.loads(l[6:]); o['wall'] = round(time.time() - t0, 1); return o
            return dict(case=rel, error='no result rc=%s %s' % (r.returncode, r.stderr[-300:]))
        except subprocess.TimeoutExpired:
            return dict(case=rel, error='timeout')
    with ThreadPoolExecutor(16) as ex:
        res = list(ex.map(one, rels))
    json.dump(res, open(os.path.join(env.WORK, 'survey.json'), 'w'), indent=1)
    for o in res:
        print(o['case'], 'pf', o.get('pf'), 'init', o.get('init_ok'), 'tds', o.get('tds'), 'n', o.get('n'), 'sw', o.get('switch_times'), o.get('error', ''), o.get('wall'))
main()
