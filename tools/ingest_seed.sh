#!/bin/bash
# tools/ingest_seed.sh <ID> <N>   e.g. C04 3
# Confirms /tmp/seed/out_<ID>/m<N>.{patch,_demo.py,_notes.txt} with tools/verify_mutant.sh (scratch worktree, removed afterwards)
# and, if the demo passes on the clean tree, fails with the change and the pinned suite still passes, keeps it as seeded/<ID>/m<N>/.
id=$1; n=$2
src=/tmp/seed/out_$id
[ -f $src/m$n.patch ] || { echo "INGEST $id m$n: no patch"; exit 2; }
cd "$(dirname "$0")/.."
sed -i -E "s#/tmp/seed/wt_C[0-9]+#/tmp/mut/wt_C00#g" $src/m${n}_demo.py
line=$(tools/verify_mutant.sh $src/m$n.patch $src/m${n}_demo.py 2>&1 | grep '^VERIFY' | tail -1)
echo "$line"
case "$line" in
  *"clean=0 mutated=1 tests=ok"*) ;;
  *) echo "INGEST $id m$n: NOT confirmed"; exit 1;;
esac
d=seeded/$id/m$n; mkdir -p $d
cp $src/m$n.patch $d/patch.diff; cp $src/m${n}_demo.py $d/demo.py; cp $src/m${n}_notes.txt $d/notes.txt 2>/dev/null
/venv/bin/python - "$id" "$n" "$d" "$line" "$(git -C /repo rev-parse --short HEAD)" <<'PY'
import json, re, sys
pid, n, d, line, head = sys.argv[1:6]
patch = open(d + "/patch.diff").read()
files = sorted(set(re.findall(r"^\+\+\+ b/(\S+)", patch, re.M)))
notes = open(d + "/notes.txt").read() if __import__("os").path.exists(d + "/notes.txt") else ""
m = re.search(r"(?is)(needs?(?: to manifest|ed to manifest)?[^\n]*\n(?:.+\n){0,8})", notes)
json.dump({"property": pid, "name": "m" + n, "files": files,
           "author": "fresh sub-agent given only the property text (statement, quantifier, anchors) and a scratch worktree",
           "needs_to_manifest": (m.group(1).strip() if m else "see notes.txt")[:1200],
           "notes": "notes.txt (seeder)",
           "confirmed": {"how": "tools/verify_mutant.sh in a scratch worktree of /repo HEAD %s (removed afterwards): demo on clean tree, demo with change, pinned 77-test suite with change" % head,
                         "result": line},
           "checks_run": []}, open(d + "/meta.json", "w"), indent=1)
PY
echo "INGEST $id m$n: kept as $d"
